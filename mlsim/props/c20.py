"""C20 - PSD matrices are converted, validated and initialised as documented.

Simulator dimension (partial claim): R - 'random' priors/inits must be seed
reproducible and depend on nothing else (ambient RNG state, an earlier life of
the object); F (natural) - the conversion must be right on every path of the
diagonal / Cholesky / eigen-decomposition fallback chain, whichever the
dependency takes (a counting proxy for numpy inside metric_learn._util reports
which path ran).  The remaining clauses are matrix identities, sampled."""
import collections
import copy

import numpy as np

from .. import world
from ..core import Violation, Inconclusive, h64, digest, substream, np_stream, log_digest, rel_err
from ..data import make_data
from ..estimators import make_array
from ..histgen import gen_dataset

ID = "C20"
TIERS = {"quick": dict(runs=3000, budget=40, det=12, chunk=20),
         "thorough": dict(runs=300000, budget=560, det=120, chunk=40)}
INCONCLUSIVE_CEILING = 0.25   # guard bands around -tol and numerically borderline covariances are common by construction
RULE = ("seeded runs in three configurations: (convert) components_from_metric on symmetric matrices "
        "of size 1-8: PSD of every rank, diagonal, PSD plus noise inside/outside tolerance, "
        "indefinite, non-symmetric, spectra 1e-12..1e12, tol None or >= 0, with a counting proxy "
        "reporting the path taken (diagonal / Cholesky / eigen fallback); (prior) prior option read "
        "out through ITML with already-satisfied bounds and LSML with already-ordered quadruplets, "
        "plus SDML/MMC error behaviour, repeated under another ambient RNG state and on an object "
        "with history; (init) transformation init read out through LMNN(max_iter<=2) and an "
        "optimiser probe stub for NCA/MLKR; non-trivial = >=1 oracle comparison made; distinct = "
        "distinct (configuration, option, size/rank/path) signatures")
REAL_VS_STUB = dict(real=["metric_learn._util", "ITML/LSML/SDML/MMC/LMNN/NCA/MLKR fit paths",
                          "sklearn PCA / LDA / make_spd_matrix"],
                    stub=["counting proxy for numpy.linalg inside metric_learn._util (observer only)",
                          "probe stub for scipy.optimize.minimize inside nca/mlkr (returns x0)",
                          "ambient RNG state"])
ASSUMPTIONS = ["matrices whose smallest eigenvalue is within a factor 4 of -tol are inconclusive",
               "auto-init rule: lda iff n_components <= min(n_features, n_classes-1) (the band "
               "n_components == n_classes, where docstring and LDA's capability disagree, is skipped)"]


# --------------------------------------------------------------- (a) convert

class _LinalgProxy(object):
  def __init__(self, real, counts):
    self._real, self._c = real, counts

  def cholesky(self, a, *k, **kw):
    try:
      out = self._real.cholesky(a, *k, **kw)
    except np.linalg.LinAlgError:
      self._c["cholesky_fail"] += 1
      raise
    self._c["cholesky_ok"] += 1
    return out

  def eigh(self, a, *k, **kw):
    self._c["eigh"] += 1
    return self._real.eigh(a, *k, **kw)

  def __getattr__(self, n):
    return getattr(self._real, n)


class _NpProxy(object):
  def __init__(self, counts):
    self.linalg = _LinalgProxy(np.linalg, counts)

  def __getattr__(self, n):
    return getattr(np, n)


class NpCounting(object):
  """Observer only: no forced failure (forcing Cholesky to fail on a positive
  definite matrix is not legal numpy behaviour)."""

  def __init__(self):
    self.counts = collections.Counter()
    self.missing = False

  def __enter__(self):
    from .. import world as w
    self.mod = w.ml_util
    if not hasattr(self.mod, "np"):
      self.missing = True
      return self
    self.saved = self.mod.np
    self.mod.np = _NpProxy(self.counts)
    return self

  def __exit__(self, *exc):
    if not self.missing:
      self.mod.np = self.saved
    return False


def make_matrix(spec):
  rs = np_stream(spec["seed"], "mat")
  n = spec["n"]
  kind = spec["kind"]
  Q, _ = np.linalg.qr(rs.randn(n, n)) if n > 1 else (np.array([[1.0]]), None)
  lo, hi = spec.get("lo", -3), spec.get("hi", 3)
  w = 10.0 ** rs.uniform(lo, hi, size=n)
  rank = spec.get("rank", n)
  w[rank:] = 0.0
  if kind == "diag":
    M = np.diag(w)
  else:
    M = (Q * w).dot(Q.T)
    M = (M + M.T) / 2
  if kind == "noise":       # symmetric perturbation, relative size eps
    E = rs.randn(n, n)
    E = (E + E.T) / 2
    M = M + spec["eps"] * np.abs(w).max() * E / max(np.linalg.norm(E, 2), 1e-300)
  elif kind == "indefinite":
    k = rs.randint(0, n)
    w2 = w.copy()
    w2[k] = -spec["neg"] * max(np.abs(w).max(), 1e-300)
    M = (Q * w2).dot(Q.T) if n > 1 else np.array([[w2[0]]])
    M = (M + M.T) / 2
  elif kind == "nonsym":
    if n >= 2:
      M = M + 0.0
      M[0, n - 1] += 0.5 * (np.abs(M).max() + 1.0)
  elif kind == "block_tinyneg":
    # a PSD block plus one decoupled feature whose (diagonal) entry is a rounding-level
    # negative number: the matrix is not diagonal, its smallest eigenvalue is that entry
    if n >= 3:
      M[n - 1, :] = 0.0
      M[:, n - 1] = 0.0
      M[n - 1, n - 1] = -spec.get("tiny", 1e-18) * max(np.abs(w).max(), 1e-300)
      if np.abs(M - np.diag(np.diag(M))).max() == 0:
        M[0, 1] = M[1, 0] = 0.25 * np.sqrt(abs(M[0, 0] * M[1, 1]))
  elif kind == "diag_neg":
    M = np.diag(w)
    M[rs.randint(0, n), rs.randint(0, n)] *= 1.0
    M[n - 1, n - 1] = -spec["neg"] * max(np.abs(w).max(), 1e-300)
  return M


def run_convert(plan, cov, events):
  from metric_learn._util import components_from_metric
  from metric_learn.exceptions import NonPSDError
  spec = plan["matrix"]
  M = make_matrix(spec)
  n = M.shape[0]
  eps_m = np.finfo(float).eps
  if spec.get("dtype") == "float32" and spec["kind"] in ("psd", "diag", "indefinite") and \
      abs(spec.get("lo", -3)) <= 3 and abs(spec.get("hi", 3)) <= 3:
    # single-precision input: PSD "up to rounding" means up to *its* rounding
    M = M.astype(np.float32)
    M = ((M + M.T) / 2).astype(np.float32)
    eps_m = float(np.finfo(np.float32).eps)
    cov["convert_float32"] += 1
  tol = plan.get("tol")
  Mc = M.copy()
  with NpCounting() as npc, world.observed():
    try:
      L = components_from_metric(M, tol) if tol is not None else components_from_metric(M)
      outcome, exc = "ok", None
    except Exception as e:
      outcome, exc, L = "exc:" + type(e).__name__, e, None
  path = ("diagonal" if (npc.counts["cholesky_ok"] + npc.counts["cholesky_fail"] == 0 and
                         npc.counts["eigh"] == 0) else
          "cholesky" if npc.counts["cholesky_ok"] else "eigen_fallback")
  if npc.missing:
    path = "unknown"
    cov["seam_missing"] += 1
  events.append(dict(cfg="convert", kind=spec["kind"], n=n, outcome=outcome, path=path,
                     out=digest(np.round(L, 9)) if L is not None and n == 1 else None))
  if not np.array_equal(M, Mc):
    raise Violation("convert", "input_modified", "components_from_metric modified its argument")
  norm = max(np.abs(M).max(), 1e-300)
  asym = np.abs(M - M.T).max()
  if spec["kind"] == "nonsym" and n >= 2:
    if not (outcome.startswith("exc:") and isinstance(exc, ValueError)):
      raise Violation("convert", "nonsymmetric_accepted",
                      "a clearly non-symmetric matrix gave %s instead of ValueError" % outcome)
    cov["convert_nonsym_checked"] += 1
    return "nonsym"
  w = np.linalg.eigvalsh((M.astype(float) + M.T.astype(float)) / 2)
  if tol is not None and path == "diagonal" and np.array_equal(M, np.diag(np.diag(M))):
    # an exactly diagonal matrix has exactly known eigenvalues, and an explicit tolerance is an
    # exactly known number: no guard band ("an eigenvalue below minus the tolerance is rejected",
    # for all tol >= 0 including 0)
    dmin = float(np.diag(M).min())
    if dmin < -tol:
      if not isinstance(exc, NonPSDError):
        raise Violation("convert", "diagonal_negative_entry_not_rejected,tol=%s" % ("zero" if tol == 0 else "positive"),
                        "diagonal matrix with entry %g < -tol = -%g gave %s" % (dmin, tol, outcome))
      cov["convert_rejections_checked"] += 1
      cov["convert_diagonal_exact_rule"] += 1
      cov["convert_path_" + path] += 1
      return "rejected/" + path
  tol_eff = tol if tol is not None else np.abs(w).max() * n * eps_m
  noise = 50 * n * eps_m * np.abs(w).max()
  lam = w.min()
  if lam < -(4 * tol_eff + noise) - 1e-300:
    if not isinstance(exc, NonPSDError):
      raise Violation("convert", "indefinite_not_rejected,path=%s" % path,
                      "lambda_min=%g < -tol=%g but the outcome was %s" % (lam, tol_eff, outcome))
    cov["convert_rejections_checked"] += 1
    cov["convert_path_" + path] += 1
    return "rejected/" + path
  # must-accept zone: clearly >= -tol, and not a numerically singular matrix
  # judged with a tolerance below the rounding noise of an eigensolver
  must_accept = (lam >= -tol_eff / 4) and (lam > noise or tol_eff >= 4 * noise or path == "diagonal")
  if path == "diagonal":
    must_accept = np.diag(M).min() >= -tol_eff / 4
    if not must_accept and np.diag(M).min() >= -4 * tol_eff:
      raise Inconclusive("lambda_min_near_minus_tol")
  if not must_accept:
    raise Inconclusive("lambda_min_near_minus_tol")
  # PSD (up to rounding / tolerance): must be converted
  if outcome != "ok":
    raise Violation("convert", "psd_rejected,path=%s" % path,
                    "PSD matrix (lambda_min=%g, tol=%g) gave %s: %s" % (lam, tol_eff, outcome, exc))
  if not isinstance(L, np.ndarray) or L.shape != (n, n) or not np.isfinite(L).all():
    raise Violation("convert", "shape", "L has shape %s" % (getattr(L, "shape", None),))
  err = np.abs(L.astype(float).T.dot(L.astype(float)) - M.astype(float)).max()
  bound = (1e-9 if eps_m < 1e-10 else 1e-4) * norm + n * max(-lam, 0) * 2      # (clipping a negative part changes M by at most |lambda_min| per direction)
  if err > bound:
    raise Violation("convert", "LtL_ne_M,path=%s" % path,
                    "max|L^T L - M| = %g (bound %g, ||M||=%g, rank %s, path %s)"
                    % (err, bound, norm, spec.get("rank"), path))
  cov["convert_checked"] += 1
  cov["convert_path_" + path] += 1
  return "ok/" + path + "/r%s" % spec.get("rank")


# ----------------------------------------------------------------- (b) prior

def satisfied_quads(D, M0, m, seed):
  """Quadruplets (a,b,c,d) with d_M0(a,b) < d_M0(c,d): all constraints hold
  under the prior."""
  rs = np_stream(seed, "quads")
  out = []
  for _ in range(20 * m):
    i = rs.randint(0, D.N, size=4)
    if len(set(i.tolist())) < 4:
      continue
    P = D.S[i]
    dab = (P[0] - P[1]).dot(M0).dot(P[0] - P[1])
    dcd = (P[2] - P[3]).dot(M0).dot(P[2] - P[3])
    if dab < 0.7 * dcd:
      out.append(i)
    elif dcd < 0.7 * dab:
      out.append(i[[2, 3, 0, 1]])
    if len(out) >= m:
      break
  return np.array(out)


def expected_prior(opt, points, seed, arr):
  d = points.shape[1]
  if opt == "identity":
    return np.eye(d)
  if opt == "covariance":
    X = np.unique(points, axis=0)
    C = np.atleast_2d(np.cov(X, rowvar=False))
    return np.linalg.pinv(C, hermitian=True)
  if opt == "array":
    return arr
  return None


def run_prior(plan, cov, events):
  import metric_learn as ml
  from metric_learn.exceptions import NonPSDError
  D = make_data(plan["dataset"])
  d = D.d
  opt = plan["option"]
  learner = plan["learner"]
  seed = plan["seed"]
  arr = None
  if opt in ("array", "singular", "indefinite", "nonsym", "wrongshape"):
    arr = make_array(dict(kind="spd", seed=plan["arr_seed"], d=d))
    if opt == "array" and plan.get("arr_int"):
      # a whole-number SPD matrix kept in an integer dtype (still "a numpy array of shape (d, d)")
      Bi = np_stream(plan["arr_seed"], "intspd").randint(-2, 3, size=(d, d))
      arr = (Bi.dot(Bi.T) + np.eye(d, dtype=int)).astype(plan["arr_int"])
      cov["array_integer_dtype"] += 1
    if opt == "singular":
      # exactly singular and exactly representable: B B^T with small integers
      Bm = np_stream(plan["arr_seed"], "sing").randint(-3, 4, size=(d, max(1, d - 1))).astype(float)
      arr = Bm.dot(Bm.T)
      if np.abs(arr).max() == 0:
        raise Inconclusive("singular_array_is_zero")
    elif opt == "indefinite":
      w, V = np.linalg.eigh(arr)
      w[0] = -0.5 * w[-1]
      arr = (V * w).dot(V.T)
      arr = (arr + arr.T) / 2
    elif opt == "nonsym":
      arr = arr.copy()
      arr[0, d - 1] += 1.0 + np.abs(arr).max()
    elif opt == "wrongshape":
      arr = make_array(dict(kind="spd", seed=plan["arr_seed"], d=d + 1))
  if arr is not None and plan.get("arr_layout"):
    from ..estimators import _layout
    arr = _layout(arr, plan["arr_layout"])
    cov["array_layout_" + plan["arr_layout"]] += 1
  prior = arr if arr is not None else opt
  arr_dg = digest(arr) if arr is not None else None
  pname = "init" if learner == "MMC" else "prior"

  def build(rs_seed, history=False):
    kw = {pname: prior, "random_state": rs_seed}
    if learner == "ITML":
      est = ml.ITML(max_iter=3, **kw)
    elif learner == "LSML":
      est = ml.LSML(max_iter=5, **kw)
    elif learner == "SDML":
      est = ml.SDML(balance_param=1e-6, sparsity_param=0.01, **kw)
    else:
      est = ml.MMC(max_iter=2, **kw)
    return est

  def fit(est, quads_prior=None):
    pairs = D.S[D.pairs_idx]
    if learner == "ITML":
      dmax = np.linalg.norm(D.S.max(axis=0) - D.S.min(axis=0))
      return est.fit(pairs, D.pairs_y, bounds=np.array([1e9 * (1 + dmax) ** 2, 1e-12]))
    if learner == "LSML":
      return est.fit(quads_prior)
    return est.fit(pairs, D.pairs_y)

  # the prior under which LSML's quadruplets must already be ordered
  pts_pairs = D.S[D.pairs_idx].reshape(-1, d)
  M_exp = expected_prior(opt, pts_pairs, seed, arr)
  quads = None
  if learner == "LSML":
    Mq = M_exp
    if opt == "random":
      from sklearn.datasets import make_spd_matrix
      Mq = make_spd_matrix(d, random_state=seed)    # documented generator
    if opt in ("identity", "array", "random") or (opt == "covariance"):
      if opt == "covariance":
        # LSML de-duplicates the points of the quadruplets themselves: build quads first
        qi = satisfied_quads(D, np.eye(d), 12, plan["seed"])
        if len(qi) < 4:
          raise Inconclusive("no_quadruplets")
        X = np.unique(D.S[qi].reshape(-1, d), axis=0)
        C = np.atleast_2d(np.cov(X, rowvar=False))
        if np.linalg.matrix_rank(C) < d:
          raise Inconclusive("singular_covariance")
        Mq = np.linalg.inv(C)
        P = D.S[qi]
        dab = np.einsum("ij,jk,ik->i", P[:, 0] - P[:, 1], Mq, P[:, 0] - P[:, 1])
        dcd = np.einsum("ij,jk,ik->i", P[:, 2] - P[:, 3], Mq, P[:, 2] - P[:, 3])
        sw = dab > dcd
        qi[sw] = qi[sw][:, [2, 3, 0, 1]]
        ok = np.minimum(dab, dcd) < 0.9 * np.maximum(dab, dcd)
        qi = qi[ok]
        if len(qi) < 3:
          raise Inconclusive("no_quadruplets")
        # removing rows may change the set of distinct points
        X2 = np.unique(D.S[qi].reshape(-1, d), axis=0)
        if X2.shape != X.shape:
          raise Inconclusive("covariance_quadruplets_unstable")
        M_exp = Mq
      else:
        qi = satisfied_quads(D, Mq, 12, plan["seed"])
      if len(qi) < 3:
        raise Inconclusive("no_quadruplets")
      quads = D.S[qi]
    else:
      qi = satisfied_quads(D, np.eye(d), 8, plan["seed"])
      quads = D.S[qi] if len(qi) else None
      if quads is None:
        raise Inconclusive("no_quadruplets")
  est = build(seed)
  if plan.get("history"):
    try:
      with world.observed():
        D2 = make_data(dict(plan["dataset"], seed=plan["dataset"]["seed"] + 3))
        if learner == "LSML":
          q2 = satisfied_quads(D2, np.eye(d), 6, 1)
          est.fit(D2.S[q2])
        elif learner == "ITML":
          est.fit(D2.S[D2.pairs_idx], D2.pairs_y)
        else:
          est.fit(D2.S[D2.pairs_idx], D2.pairs_y)
    except Exception:
      pass
  world.perturb_ambient(plan["ambient"], 2)
  with world.observed() as wl, world.UtilEighSeam(fail_first=bool(plan.get("eigh_fault"))) as ue:
    try:
      fit(est, quads)
      outcome, exc = "ok", None
    except Exception as e:
      outcome, exc = "exc:" + type(e).__name__, e
  events.append(dict(cfg="prior", learner=learner, option=opt, outcome=outcome, eigh_fault=ue.fired))
  if ue.fired:
    cov["util_eigh_fault_fired"] += 1
    if isinstance(exc, np.linalg.LinAlgError) and "simulated" in str(exc):
      # the solver failure reached the caller: nothing is promised about this fit
      raise Inconclusive("solver_exception_propagated_under_forced_failure")
  if arr is not None and digest(arr) != arr_dg:
    raise Violation("prior", "array_modified,learner=%s" % learner, "the caller's prior array was modified")
  strict = learner in ("ITML", "LSML", "SDML")
  sig = "learner=%s,option=%s" % (learner, opt)
  if opt in ("nonsym", "wrongshape"):
    if not isinstance(exc, ValueError):
      raise Violation("prior", sig + ",not_rejected", "%s %s gave %s instead of ValueError" % (opt, pname, outcome))
    cov["prior_rejections_checked"] += 1
    return sig
  if opt == "indefinite":
    if not isinstance(exc, NonPSDError):
      raise Violation("prior", sig + ",not_rejected", "indefinite %s gave %s instead of NonPSDError" % (pname, outcome))
    cov["prior_rejections_checked"] += 1
    return sig
  if opt == "singular":
    if strict:
      if not isinstance(exc, (np.linalg.LinAlgError, ValueError)):
        # discriminator: did the eigen-solver's rounding noise on this exactly
        # singular matrix exceed the rank-style tolerance the check uses?
        import scipy.linalg
        wc = scipy.linalg.eigh(arr, check_finite=False)[0]
        tol_c = np.abs(wc).max() * len(wc) * np.finfo(float).eps
        why = ",eigensolver_noise_above_rank_tolerance" if np.abs(wc).min() >= tol_c else ""
        raise Violation("prior", sig + ",singular_accepted" + why,
                        "exactly singular %s %r gave %s for a learner that needs a strictly PD prior "
                        "(computed |lambda|_min=%.3g, tolerance %.3g)"
                        % (pname, arr.tolist(), outcome, np.abs(wc).min(), tol_c))
      cov["prior_rejections_checked"] += 1
    elif outcome != "ok":
      # discriminator: was it the eigen-solver's rounding noise on this exactly singular matrix,
      # a little below minus the rank-style tolerance of the PSD test?
      import scipy.linalg
      wc = scipy.linalg.eigh(arr, check_finite=False)[0]
      tol_c = np.abs(wc).max() * len(wc) * np.finfo(float).eps
      why = ",eigensolver_noise_below_minus_tolerance" if (isinstance(exc, NonPSDError) and
                                                           -64 * tol_c < wc.min() < -tol_c) else ""
      raise Violation("prior", sig + ",singular_rejected" + why,
                      "MMC rejected the exactly singular PSD init %r: %s (computed lambda_min=%.3g, tolerance %.3g)"
                      % (arr.tolist(), exc, wc.min(), tol_c))
    return sig
  if opt == "covariance":
    X = np.unique(pts_pairs if learner != "LSML" else quads.reshape(-1, d), axis=0)
    C = np.atleast_2d(np.cov(X, rowvar=False))
    sing = np.linalg.matrix_rank(C) < d
    wC = np.linalg.eigvalsh((C + C.T) / 2)
    borderline = np.abs(wC).min() <= 200 * d * np.finfo(float).eps * np.abs(wC).max()
    if borderline and (outcome != "ok" or sing):
      import scipy.linalg
      wc = scipy.linalg.eigh(C, check_finite=False)[0]
      tol_c = np.abs(wc).max() * len(wc) * np.finfo(float).eps
      if (sing and np.abs(wc).min() >= tol_c / 8) or (not sing) or wc.min() < 0:
        raise Inconclusive("covariance_numerically_borderline")
    if sing and strict:
      if not isinstance(exc, (np.linalg.LinAlgError, ValueError)):
        raise Violation("prior", sig + ",singular_cov_accepted",
                        "singular covariance accepted by a strictly-PD learner (%s)" % outcome)
      cov["prior_rejections_checked"] += 1
      return sig + ",singular"
  if learner in ("SDML", "MMC"):
    if outcome != "ok" and not (learner == "SDML" and isinstance(exc, RuntimeError)):
      raise Violation("prior", sig + ",raises", "%s(%s=%s).fit raised %s: %s" % (learner, pname, opt, outcome, str(exc)[:150]))
    cov["prior_accept_checked"] += 1
    return sig
  if outcome != "ok":
    raise Violation("prior", sig + ",raises", "%s(prior=%s).fit raised %s: %s" % (learner, opt, outcome, str(exc)[:150]))
  M = est.get_mahalanobis_matrix()
  if opt == "random":
    # seed reproducible, independent of ambient state and history; differs across seeds; SPD
    world.perturb_ambient(plan["ambient"] + 17, 9)
    e2 = build(seed)
    with world.observed():
      fit(e2, quads)
    M2 = e2.get_mahalanobis_matrix()
    if rel_err(M, M2) > 1e-9:
      raise Violation("prior", sig + ",not_reproducible",
                      "prior='random' with the same seed gave different matrices under another "
                      "ambient RNG state / history (relative %.3g)" % rel_err(M, M2))
    if np.linalg.eigvalsh((M + M.T) / 2).min() <= 0:
      raise Violation("prior", sig + ",not_spd", "random prior is not SPD")
    e3 = build(seed + 1)
    try:
      with world.observed():
        fit(e3, quads)
      if rel_err(M, e3.get_mahalanobis_matrix()) < 1e-6:
        raise Violation("prior", sig + ",seed_ignored", "different seeds gave the same 'random' prior")
    except Violation:
      raise
    except Exception:
      pass
    cov["prior_random_checked"] += 1
    _CAPTURE["M"] = np.asarray(M, dtype=float).tolist()
    return sig
  e = rel_err(M, M_exp)
  tol_v = 1e-7
  if opt == "covariance":
    # forward error of an inverse grows with the condition number of the covariance
    wv = np.linalg.eigvalsh((M_exp + M_exp.T) / 2)
    condM = wv.max() / max(wv.min(), 1e-300)
    if condM > 1e13:
      raise Inconclusive("covariance_too_ill_conditioned")
    tol_v = 1e-7 + 200 * np.finfo(float).eps * condM
    cov["prior_cov_wide_spectrum"] += int(condM > 1e8)
  if e > tol_v:
    raise Violation("prior", sig + ",value",
                    "learned matrix with untouched constraints should equal the %s prior: relative %.3g"
                    % (opt, e))
  cov["prior_readouts_checked"] += 1
  return sig


# ------------------------------------------------------------------ (c) init

def read_init(learner, D, y, init, k, seed):
  """Initial transformation read out through the public API."""
  import metric_learn as ml
  kw = dict(init=init, n_components=k, random_state=seed)
  if learner == "LMNN":
    est = ml.LMNN(max_iter=2, n_neighbors=1, **kw)
    est.fit(D.X.copy(), y.copy())
    return est.components_, None
  mod = world.ml_nca if learner == "NCA" else world.ml_mlkr
  with world.MinimizeProbe(mod) as probe:
    if probe.missing:
      raise Inconclusive("seam_missing_minimize")
    est = (ml.NCA if learner == "NCA" else ml.MLKR)(max_iter=1, **kw)
    yr = D.yreg
    if getattr(D, "int_targets", False):
      yr = np.round(D.yreg * 2.0)        # regression targets that happen to be whole numbers
    est.fit(D.X.copy(), (y if learner == "NCA" else yr).copy())
  if probe.calls != 1:
    raise Inconclusive("probe_not_called_once")
  return est.components_, probe


def run_init(plan, cov, events):
  D = make_data(plan["dataset"])
  D.int_targets = bool(plan.get("int_targets"))
  d, n = D.d, D.n
  learner = plan["learner"]
  opt = plan["option"]
  k = plan["k"]
  keff = d if k is None else k
  seed = plan["seed"]
  y = D.y
  n_classes = D.classes
  has_classes = learner != "MLKR"
  arr = None
  if opt in ("array", "array_badcols", "array_toomanyrows", "array_rowsmismatch"):
    if opt == "array":
      arr = make_array(dict(kind="lin", seed=plan["arr_seed"], k=keff, d=d))
      if plan.get("arr_int"):
        arr = np.round(arr * 3).astype(plan["arr_int"])      # whole numbers in an integer dtype
        cov["array_integer_dtype"] += 1
    elif opt == "array_badcols":
      arr = make_array(dict(kind="lin", seed=plan["arr_seed"], k=keff, d=d + 1))
    elif opt == "array_toomanyrows":
      arr = make_array(dict(kind="lin", seed=plan["arr_seed"], k=d + 1, d=d))
    else:
      arr = make_array(dict(kind="lin", seed=plan["arr_seed"], k=max(1, keff - 1) if keff > 1 else 2, d=d))
  if arr is not None and plan.get("arr_layout"):
    from ..estimators import _layout
    arr = _layout(arr, plan["arr_layout"])
    cov["array_layout_" + plan["arr_layout"]] += 1
  init = arr if arr is not None else opt
  arr_dg = digest(arr) if arr is not None else None
  world.perturb_ambient(plan["ambient"], 3)
  for other in plan.get("prehistory") or []:
    # earlier life of the process: other learners have been fitted here before
    # (what an option means must not depend on that)
    import metric_learn as ml
    try:
      with world.observed():
        if other["learner"] == "MLKR":
          ml.MLKR(init=other["init"], max_iter=1, random_state=1).fit(D.X.copy(), D.yreg.copy())
        else:
          getattr(ml, other["learner"])(init=other["init"], max_iter=2, random_state=1).fit(D.X.copy(), y.copy())
    except Exception:
      pass
    cov["init_with_process_prehistory"] += 1
  with world.observed():
    try:
      L, _ = read_init(learner, D, y, init, k, seed)
      outcome, exc = "ok", None
    except Inconclusive:
      raise
    except Exception as e:
      outcome, exc, L = "exc:" + type(e).__name__, e, None
  events.append(dict(cfg="init", learner=learner, option=opt, k=k, outcome=outcome))
  sig = "learner=%s,option=%s" % (learner, opt)
  if arr is not None and digest(arr) != arr_dg:
    raise Violation("init", sig + ",array_modified", "the caller's init array was modified")
  if opt in ("array_badcols", "array_toomanyrows", "array_rowsmismatch"):
    if opt == "array_rowsmismatch" and k is None:
      return sig + ",skipped"
    if not isinstance(exc, ValueError):
      raise Violation("init", sig + ",not_rejected", "ill-shaped init array gave %s instead of ValueError" % outcome)
    cov["init_rejections_checked"] += 1
    return sig
  if opt == "lda" and (not has_classes or keff > min(d, n_classes - 1)):
    if not has_classes and not isinstance(exc, ValueError):
      raise Violation("init", sig + ",lda_for_regression", "MLKR accepted init='lda' (%s)" % outcome)
    return sig + ",out_of_domain"
  if outcome != "ok":
    raise Violation("init", sig + ",raises", "%s(init=%s, n_components=%r) raised %s: %s"
                    % (learner, opt, k, outcome, str(exc)[:150]))
  if L.shape != (keff, d):
    raise Violation("init", sig + ",shape", "initial transformation has shape %s, expected (%d,%d)" % (L.shape, keff, d))
  G = L.T.dot(L)
  if opt == "identity":
    if not np.array_equal(L, np.eye(keff, d)):
      raise Violation("init", sig + ",value", "init='identity' is not eye(k, d)")
  elif opt == "array":
    if rel_err(L, arr) > 1e-12:
      raise Violation("init", sig + ",value", "init array not used as given")
  elif opt == "random":
    world.perturb_ambient(plan["ambient"] + 5, 11)
    with world.observed():
      L2, _ = read_init(learner, D, y, init, k, seed)
      L3, _ = read_init(learner, D, y, init, k, seed + 1)
    if not np.array_equal(L, L2):
      raise Violation("init", sig + ",not_reproducible", "init='random' differs for the same seed under another ambient RNG state")
    if np.array_equal(L, L3):
      raise Violation("init", sig + ",seed_ignored", "init='random' identical for different seeds")
    _CAPTURE["M"] = np.asarray(L, dtype=float).tolist()
  elif opt == "pca":
    from sklearn.decomposition import PCA
    ref = PCA(n_components=keff).fit(D.X).components_
    if rel_err(G, ref.T.dot(ref)) > 1e-8:
      raise Violation("init", sig + ",value", "init='pca' differs from scikit-learn's PCA components")
  elif opt == "lda":
    from sklearn.discriminant_analysis import LinearDiscriminantAnalysis as LDA
    ref = LDA(n_components=keff).fit(D.X, y).scalings_.T[:keff]
    if ref.shape[0] < keff:      # documented: the rest of the components are zero
      ref = np.vstack([ref, np.zeros((keff - ref.shape[0], d))])
    if ref.shape != L.shape or rel_err(G, ref.T.dot(ref)) > 1e-8:
      raise Violation("init", sig + ",value", "init='lda' differs from scikit-learn's LDA scalings")
  elif opt == "auto":
    if has_classes and n_classes - 1 < keff <= n_classes and keff <= d:
      return sig + ",ambiguous_band"
    if has_classes and keff <= min(d, n_classes - 1):
      want = "lda"
    elif keff < min(d, n):
      want = "pca"
    else:
      want = "identity"
    with world.observed():
      Lw, _ = read_init(learner, D, y, want, k, seed)
    if Lw.shape != L.shape or rel_err(G, Lw.T.dot(Lw)) > 1e-9:
      raise Violation("init", sig + ",rule=%s" % want,
                      "init='auto' with n_components=%r, d=%d, n_classes=%d should select %s"
                      % (k, d, n_classes, want))
    sig += ",rule=" + want
  cov["init_checked"] += 1
  cov["init_via_" + learner] += 1
  return sig


# ---------------------------------------------------------------- plan / run

def gen_plan(seed, tier):
  r = substream(seed, "c20")
  cfg = r.choice(["convert", "convert", "prior", "init"])
  plan = dict(run_seed=seed, cfg=cfg, ambient=r.randrange(10**6))
  if cfg == "convert":
    n = r.randint(1, 8)
    kind = r.choice(["psd", "psd", "diag", "noise", "noise", "indefinite", "nonsym", "diag_neg"])
    wide = r.random() < 0.3
    plan["matrix"] = dict(seed=r.randrange(10**6), n=n, kind=kind, rank=r.randint(0 if kind == "psd" else 1, n),
                          lo=-12 if wide else -3, hi=12 if wide else 3,
                          eps=r.choice([1e-15, 1e-13, 1e-9, 1e-6, 1e-3]),
                          neg=r.choice([1e-3, 1e-1, 1.0, 1e-6]))
    plan["tol"] = r.choice([None, None, 0.0, 1e-12, 1e-6, 1e-2])
    rb = substream(seed, "c20-block")
    if rb.random() < 0.08:
      plan["matrix"].update(kind="block_tinyneg", n=max(3, n), rank=max(3, n), lo=-2, hi=2,
                            tiny=rb.choice([1e-18, 1e-15, 1e-12]))
      plan["tol"] = rb.choice([1e-6, 1e-2, 1e-4])      # an explicit tolerance far above the entry
    elif substream(seed, "c20-f32").random() < 0.12:
      plan["matrix"]["dtype"] = "float32"
      plan["tol"] = None
    elif kind == "diag_neg" and substream(seed, "c20-tinydiag").random() < 0.5:
      rt = substream(seed, "c20-tinydiag2")
      plan["matrix"]["neg"] = rt.choice([1e-30, 1e-20, 1e-17, 1e-14, 1e-10])   # a rounding-sized negative entry
      plan["tol"] = rt.choice([0.0, 0.0, 1e-25, 1e-12])
  elif cfg == "prior":
    desc = gen_dataset(r, dmax=5)
    desc["tuples"] = r.randint(12, 30)
    if r.random() < 0.15:
      desc["kind"] = "lowrank"
    elif r.random() < 0.3:
      desc["scale"] = r.choice([2, 3])     # feature scales over 4-6 orders of magnitude
    plan.update(dataset=desc, learner=r.choice(["ITML", "ITML", "LSML", "LSML", "SDML", "MMC"]),
                option=r.choice(["identity", "covariance", "covariance", "random", "random", "array", "array",
                                 "singular", "indefinite", "nonsym", "wrongshape"]),
                seed=r.randrange(10**6), arr_seed=r.randrange(10**6), history=r.random() < 0.3)
  else:
    desc = gen_dataset(r, dmax=6, tuples=False)
    d = desc["d"]
    plan.update(dataset=desc, learner=r.choice(["LMNN", "LMNN", "NCA", "MLKR"]),
                option=r.choice(["auto", "auto", "auto", "pca", "lda", "identity", "random", "array",
                                 "array_badcols", "array_toomanyrows", "array_rowsmismatch"]),
                k=r.choice([None] + list(range(1, d + 1))), seed=r.randrange(10**6),
                arr_seed=r.randrange(10**6))
  if cfg == "init" and plan["learner"] == "MLKR":
    rq = substream(seed, "c20-mlkr")
    plan["int_targets"] = rq.random() < 0.5
    if rq.random() < 0.35:
      plan["option"] = "lda"          # not an option for a regression learner: must be refused
  if cfg == "init" and substream(seed, "c20-pre").random() < 0.35:
    rp = substream(seed, "c20-pre2")
    plan["prehistory"] = [dict(learner=rp.choice(["LMNN", "NCA", "MLKR"]),
                               init=rp.choice(["auto", "pca", "identity", "random", "lda"]))
                          for _ in range(rp.randint(1, 2))]
  if cfg == "prior" and plan["option"] in ("array", "indefinite", "singular", "covariance") and \
      substream(seed, "c20-eighfault").random() < 0.25:
    plan["eigh_fault"] = True       # the first eigen-decomposition made by _util fails (LinAlgError)
  if cfg in ("prior", "init") and plan["option"] == "array" and substream(seed, "c20-intarr").random() < 0.3:
    plan["arr_int"] = substream(seed, "c20-intarr2").choice(["int64", "int64", "int32"])
  if cfg in ("prior", "init") and plan["option"] == "random" and substream(seed, "c20-fresh").random() < 0.3:
    plan["fresh"] = True
  if cfg in ("prior", "init"):
    from ..estimators import gen_layout
    lay = gen_layout(substream(seed, "c20-layout"), 0.4)
    if lay:
      plan["arr_layout"] = lay        # Fortran-ordered / non-contiguous array option
  return plan


_CAPTURE = {}


def fresh_eval(plan):
  """The 'random' prior / init of this plan as a fresh interpreter (other hash seed, virgin
  global RNG) produces it."""
  _CAPTURE.clear()
  r = run_plan(dict(plan, fresh=False))
  return dict(M=_CAPTURE.get("M"), violation=r.get("violation"), inconclusive=r.get("inconclusive"))


def run_plan(plan):
  _CAPTURE.clear()
  cov = collections.Counter()
  events = []
  inconclusive = []
  violation = None
  nontrivial = False
  shape = plan["cfg"]
  try:
    if plan["cfg"] == "convert":
      shape += "|" + run_convert(plan, cov, events) + "|%d|%s|%s" % (
          plan["matrix"]["n"], plan["matrix"]["kind"], plan.get("tol"))
    elif plan["cfg"] == "prior":
      shape += "|" + run_prior(plan, cov, events)
    else:
      shape += "|" + run_init(plan, cov, events) + "|k=%r" % plan["k"]
    nontrivial = True
    if plan.get("fresh") and _CAPTURE.get("M") is not None:
      # 'random' is seed reproducible: the same integer seed gives the same matrix in another
      # interpreter process (other string-hash salt, untouched global RNG)
      from .. import runner
      mine = np.array(_CAPTURE["M"])
      got = runner.fresh_eval(ID, plan)
      if got.get("M") is None:
        raise Violation(plan["cfg"], "random,fresh_process,no_matrix",
                        "the same plan gave no matrix in a fresh interpreter: %r" % (got,))
      e = rel_err(mine, np.array(got["M"]))
      events.append(dict(cfg="fresh_process", rel=float(np.round(e, 6))))
      if e > 1e-9:
        raise Violation(plan["cfg"], "random,fresh_process,learner=%s" % plan["learner"],
                        "%s='random' with integer seed %d differs between this process and a fresh interpreter "
                        "with another hash seed (relative %.3g)" % (plan["cfg"], plan["seed"], e))
      cov["random_fresh_process_checked"] += 1
  except Violation as v:
    violation = dict(oracle=v.oracle, sig=v.sig, detail=v.detail, op=None)
  except Inconclusive as ic:
    inconclusive.append(ic.reason)
  return dict(digest=log_digest(events), violation=violation, cov=dict(cov), events=events,
              inconclusive=inconclusive, shape="%016x" % h64(shape), nontrivial=nontrivial)


def shrink_moves(plan, violation):
  if plan["cfg"] == "convert":
    m = plan["matrix"]
    for key, lo in (("n", 1), ("rank", 0)):
      if m.get(key, 0) > lo:
        p = copy.deepcopy(plan)
        p["matrix"][key] = m[key] - 1
        p["matrix"]["rank"] = min(p["matrix"]["rank"], p["matrix"]["n"])
        yield p
    if plan.get("tol") is not None:
      p = copy.deepcopy(plan)
      p["tol"] = None
      yield p
    if (m["lo"], m["hi"]) != (-1, 1):
      p = copy.deepcopy(plan)
      p["matrix"]["lo"], p["matrix"]["hi"] = -1, 1
      yield p
    return
  if plan.get("history"):
    p = copy.deepcopy(plan)
    p["history"] = False
    yield p
  d = plan["dataset"]
  for key, lo in (("n", 4 * d["d"]), ("tuples", 12), ("classes", 2), ("extra", 0)):
    if d.get(key, 0) > lo:
      p = copy.deepcopy(plan)
      p["dataset"][key] = max(lo, d[key] // 2 if key in ("n", "tuples") else d[key] - 1)
      yield p
  for key in ("scale", "perm"):
    if d.get(key):
      p = copy.deepcopy(plan)
      p["dataset"][key] = 0
      yield p
