"""C03 - fit on well-formed input yields a valid Mahalanobis model of the
right shape (postcondition evaluated after every successful fit of a history).

Simulator dimension: H (the postcondition speaks about the *last* fit of any
history), R (ambient RNG, ARPACK start vector), F (forced ArpackNoConvergence:
LFDA's fallback chain)."""
import numpy as np

from .. import world
from ..core import Violation, Inconclusive, h64, np_stream
from ..histgen import gen_history, history_shrink_moves
from ..machine import Machine

ID = "C03"
TIERS = {"quick": dict(runs=900, budget=40, det=12),
         "thorough": dict(runs=60000, budget=560, det=120)}
INCONCLUSIVE_CEILING = 0.15
RULE = ("seeded histories (new / set_params / fit / refit on data of other size and "
        "dimensionality / failing fit / clone / pickle restart / ambient RNG perturbation / "
        "ARPACK reseed and forced non-convergence / a fit interrupted (KeyboardInterrupt or MemoryError raised by the simulator at a drawn metric-learn line event) before the next fit) over the 17 estimators x documented option "
        "values; the full postcondition is evaluated after every successful fit; non-trivial = "
        ">=1 successful fit checked; distinct = distinct (op:estimator) sequences")
REAL_VS_STUB = dict(real=["metric_learn", "numpy", "scipy", "scikit-learn"],
                    stub=["ARPACK start vector / forced ArpackNoConvergence", "ambient RNG state",
                          "simulated clock", "preprocessor PointStore",
                          "crash points: sys.settrace line events inside metric_learn (interruption "
                          "by SimInterrupt(KeyboardInterrupt) / MemoryError at the k-th line of a fit)"])
ASSUMPTIONS = ["well-formed input as in the property's quantifier (continuous data, n >= 4d, "
               ">= 2 classes with >= 4 members, non-collapsed tuples); SDML's documented "
               "RuntimeError and solver exceptions under forced ARPACK failure are inconclusive"]


class Oracle(object):
  def __init__(self):
    self.checked = 0

  def after(self, m, op, ev, live):
    if op["op"] in ("calibrate", "query", "set_threshold", "restart") and ev.get("outcome") != "skip":
      # "n_features_in_ equals the number of features of the points seen by the last fit":
      # whatever else is done to the object (also a call that is rejected) until the next fit
      h = live.get("handle")
      if h is not None and h.est is not None and h.defined and h.d_fit is not None and "pre" not in op:
        nfi = getattr(h.est, "n_features_in_", None)
        m.cov["n_features_in_after_other_ops"] += 1
        if nfi != h.d_fit:
          raise Violation("postcondition", "cls=%s,n_features_in_,after=%s" % (h.name, op["op"]),
                          "n_features_in_=%r after %s (%s), but the last fit saw %d features"
                          % (nfi, op["op"], ev.get("outcome"), h.d_fit))
      return
    if op["op"] != "fit" or ev.get("outcome") == "skip" or op.get("malformed"):
      return
    h = live["handle"]
    name = h.name
    D = live["D"]
    d = D.d
    if ev["outcome"] != "ok":
      exc = live.get("exc")
      et = type(exc).__name__
      if ev.get("eigsh", [0, 0])[1] > 0:
        raise Inconclusive("solver_exception_under_forced_arpack_failure")
      if name.startswith("SDML") and isinstance(exc, RuntimeError):
        raise Inconclusive("sdml_runtime_error")      # C13's clause
      if live.get("fault_fired"):
        return
      if _stale_params(h, D):
        return          # params from another dataset: the plan's own failing fit
      why = ",psd_within_rounding" if live.get("psd_within_rounding") else ""
      raise Violation("fit_raises", "cls=%s,exc=%s%s" % (name, et, why),
                      "fit on well-formed input raised %s: %s%s"
                      % (et, str(exc)[:300], " (the matrix handed to the PSD conversion is PSD up to "
                         "rounding: the eigen-solver's noise exceeded the conversion's default tolerance)"
                         if why else ""))
    if _stale_params(h, D):
      return            # outside the property's option domain for this dataset
    self.checked += 1
    est = h.est
    if live["out"] is not est:
      raise Violation("postcondition", "cls=%s,returns_self" % name,
                      "fit returned %r instead of the estimator" % type(live["out"]).__name__)
    L = vars(est).get("components_")
    if not isinstance(L, np.ndarray) or L.ndim != 2:
      raise Violation("postcondition", "cls=%s,components_type" % name,
                      "components_ is %r ndim=%r" % (type(L).__name__, getattr(L, "ndim", None)))
    if L.dtype.kind != "f":
      raise Violation("postcondition", "cls=%s,components_dtype=%s" % (name, L.dtype.kind),
                      "components_ has dtype %s (must be real floating)" % L.dtype)
    if not np.isfinite(L).all():
      if name.startswith("RCA") and _rca_degenerate(m, h, op, D):
        raise Inconclusive("rca_singular_within_chunk_covariance")
      raise Violation("postcondition", "cls=%s,components_finite" % name,
                      "components_ contains NaN/inf")
    # the option as the caller gave it (not what the estimator may have stored since)
    nc = h.pristine_params.get("n_components", None)
    k = L.shape[0]
    if L.shape[1] != d:
      raise Violation("postcondition", "cls=%s,components_cols" % name,
                      "components_.shape=%s but data has %d features" % (L.shape, d))
    if nc is not None:
      if k != nc:
        raise Violation("postcondition", "cls=%s,rows_vs_n_components" % name,
                        "components_ has %d rows, n_components=%r" % (k, nc))
    else:
      if k > d:
        raise Violation("postcondition", "cls=%s,rows_gt_d" % name,
                        "components_ has %d rows > %d features" % (k, d))
      if k < d:
        if not name.startswith("SCML"):
          raise Violation("postcondition", "cls=%s,rows_lt_d" % name,
                          "components_ has %d rows < %d features without n_components" % (k, d))
        if not world.has_warning(live["warnings"], UserWarning, "less than"):
          raise Violation("postcondition", "cls=%s,lowrank_without_warning" % name,
                          "SCML low-rank result (%d rows) without the documented warning" % k)
        m.cov["scml_lowrank"] += 1
    M = est.get_mahalanobis_matrix()
    if M.shape != (d, d) or not np.isfinite(M).all():
      raise Violation("postcondition", "cls=%s,M_shape" % name, "M shape %s" % (M.shape,))
    scale = max(1.0, float(np.abs(M).max()))
    if np.abs(M - M.T).max() > 1e-10 * scale:
      raise Violation("postcondition", "cls=%s,M_symmetric" % name,
                      "max|M-M^T|=%g" % np.abs(M - M.T).max())
    w = np.linalg.eigvalsh((M + M.T) / 2)
    if w.min() < -1e-10 * max(1.0, w.max()):
      raise Violation("postcondition", "cls=%s,M_psd" % name, "lambda_min=%g" % w.min())
    nfi = getattr(est, "n_features_in_", None)
    if nfi != d:
      raise Violation("postcondition", "cls=%s,n_features_in_" % name,
                      "n_features_in_=%r after a fit on %d-dimensional points (fit #%d of "
                      "this object)" % (nfi, d, h.n_fits))
    rs = np_stream(m.op_index, "c03")
    P = D.S[rs.randint(0, D.N, size=5)] + rs.randn(5, d)
    T = est.transform(P)
    if not isinstance(T, np.ndarray) or T.shape != (5, k):
      raise Violation("postcondition", "cls=%s,transform_shape" % name,
                      "transform of (5,%d) gave %s, expected (5,%d)" % (d, getattr(T, "shape", None), k))
    # ... whatever container the (n, n_features) points come in: transform accepts array-likes
    # and (explicitly, accept_sparse=True) scipy.sparse matrices
    which = ["list", "fortran", "csr", "csc"][int(rs.randint(0, 4))]
    if which == "list":
      P2 = P.tolist()
    elif which == "fortran":
      P2 = np.asfortranarray(P)
    else:
      import scipy.sparse as sp
      Pz = np.where(rs.rand(*P.shape) < 0.5, 0.0, P)
      P, P2 = Pz, (sp.csr_matrix(Pz) if which == "csr" else sp.csc_matrix(Pz))
      T = est.transform(P)
    with world.observed():
      T2 = est.transform(P2)
    if not isinstance(T2, np.ndarray) or T2.shape != (5, k) or T2.dtype.kind != "f":
      raise Violation("postcondition", "cls=%s,transform_shape,input=%s" % (name, which),
                      "transform of a (5,%d) %s input gave %s %s, expected a float array of shape (5,%d)"
                      % (d, which, type(T2).__name__, getattr(T2, "shape", None), k))
    if T.size and np.isfinite(T).all() and np.abs(T2 - T).max() > 1e-9 * max(1e-300, np.abs(T).max()):
      raise Violation("postcondition", "cls=%s,transform_value,input=%s" % (name, which),
                      "transform of the same points given as %s differs from the ndarray result by %g"
                      % (which, np.abs(T2 - T).max()))
    m.cov["transform_input_" + which] += 1
    m.cov["postconditions_checked"] += 1
    m.cov["k_lt_d"] += int(k < d)
    if h.n_fits > 1:
      m.cov["postconditions_after_refit"] += 1


def _stale_params(h, D):
  """True when the estimator's data-dependent hyper-parameters were drawn for
  a dataset of another dimensionality (then a raising fit is expected)."""
  d = D.d
  p = dict(h.est.get_params(deep=False))
  p.update({k_: v for k_, v in h.pristine_params.items() if k_ in ("n_components", "init", "prior", "basis")})
  nc = p.get("n_components")
  if nc is not None and not (1 <= nc <= d):
    return True
  if isinstance(p.get("init"), str) and p.get("init") == "lda" and \
      (d if nc is None else nc) > min(d, D.classes - 1):
    return True       # 'lda' is documented for n_components <= n_classes - 1 only
  for k in ("init", "prior", "basis"):
    v = p.get(k)
    if isinstance(v, np.ndarray) and v.shape[-1] != d:
      return True
  return False


def _rca_degenerate(m, h, op, D):
  """Harness-side check that the within-chunk scatter is rank deficient."""
  if h.name == "RCA":
    ch = D.chunks
    X = D.X
  else:
    return True   # chunk draw is internal; only reached if generator bound failed
  rows = []
  for c in range(ch.max() + 1):
    Z = X[ch == c]
    if len(Z):
      rows.append(Z - Z.mean(axis=0))
  Z = np.vstack(rows)
  return np.linalg.matrix_rank(Z) < D.d


def gen_plan(seed, tier):
  plan = gen_history(
      seed, tier, n_ops=(3, 9), dmax=8, pre_p=0.15, extras_p=0.3,
      weights=dict(query=4, refit=30, handout=0, mutate=0,
                   restart=5, clone=3, ambient=8, eigsh=10, set_nondata=3, failfit=6,
                   fault=0, new=12, interrupt=6, calibrate=4, threshold=2), crash_sweep_p=0.05, int_dtype_p=0.12, calib_other_p=0.5)
  for op in plan.get("ops", []):
    b = (op.get("extras") or {}).get("bounds")
    if b and b["$arr"].get("lo") != 1e12:
      # arbitrary user bounds may be infeasible (ITML then legitimately diverges): C03 only keeps
      # the generous ones, which the prior satisfies for every pair
      del op["extras"]["bounds"]
  return plan


def run_plan(plan):
  orc = Oracle()
  m = Machine(plan, [orc]).run()
  shape = "|".join("%s:%s" % (e.get("op"), e.get("cls") or "") for e in m.events)
  return m.result(shape="%016x" % h64(shape), nontrivial=orc.checked > 0)


def shrink_moves(plan, violation):
  return history_shrink_moves(plan, violation)
