"""C04 - tuple classifiers decide exactly by comparing learned distances.

Simulator dimension: H - the threshold is mutable state with three writers
(fit, calibrate_threshold, set_threshold); predictions must follow the last
successful writer along every history (incl. refits, failed writers, pickle
restarts)."""
import numpy as np

from .. import world
from ..core import Violation, h64, ulp_close, state_digest
from ..estimators import TUPLE_LEARNERS, tuple_size
from ..histgen import gen_history, history_shrink_moves
from ..machine import Machine

ID = "C04"
TIERS = {"quick": dict(runs=900, budget=40, det=12),
         "thorough": dict(runs=60000, budget=560, det=120)}
RULE = ("seeded histories on ITML/MMC/SDML (pairs), SCML (triplets), LSML (quadruplets): fit, "
        "fit(calibration_params), set_threshold (floats, ints, numpy scalars, the classifier's own "
        "distance of a probe pair, invalid values), threshold sweeps, calibrate_threshold (valid and "
        "invalid), refit, pickle restart, then predict/decision_function/score on probes with "
        "identical points, duplicated/swapped tuples, exact ties (also ties by translation on a dyadic "
        "grid, also far from the origin), near ties, indices through a preprocessor; "
        "non-trivial = >=1 classifier query checked against the reference; distinct = distinct "
        "(op:estimator/method) sequences")
REAL_VS_STUB = dict(real=["metric_learn", "numpy", "scipy", "scikit-learn (roc_auc_score)"],
                    stub=["preprocessor PointStore", "ambient RNG state", "simulated clock"])
ASSUMPTIONS = ["'learned distance' is the estimator's own pair_distance on the formed pairs; it is "
               "additionally compared with ||L(x-x')|| computed from components_ at a loose tolerance "
               "(1e-9 relative + 1e-10 |L|^2 |x-x'|^2 on squared distances; also for single-precision tuples)",
               "tuples built by translation on a dyadic grid have exactly equal compared distances "
               "whatever the metric: they must be treated as ties",
               "decision_function vs distance compared within 2 ulp; predictions compared exactly "
               "against the value the classifier itself compares"]


def auc_ties(y, s):
  """Independent ROC-AUC (Mann-Whitney U with ties counted 1/2)."""
  y = np.asarray(y)
  s = np.asarray(s, dtype=float)
  pos, neg = s[y == 1], s[y == -1]
  if len(pos) == 0 or len(neg) == 0:
    return None
  gt = (pos[:, None] > neg[None, :]).sum()
  eq = (pos[:, None] == neg[None, :]).sum()
  return (gt + 0.5 * eq) / float(len(pos) * len(neg))


def close_diff(a, b, scale, ulps=2):
  """|a-b| within 2 ulp of the magnitudes that were subtracted."""
  tol = ulps * np.spacing(np.maximum(np.abs(scale), np.finfo(float).tiny))
  return bool(np.all(np.abs(np.asarray(a) - np.asarray(b)) <= tol))


class Oracle(object):
  def __init__(self):
    self.checked = 0

  def after(self, m, op, ev, live):
    kind = op["op"]
    h = live.get("handle")
    if h is None or h.est is None:
      return
    ts = tuple_size(h.name)
    self.threshold_model(m, op, ev, h)
    if kind == "set_threshold" and ev.get("outcome") not in (None, "skip"):
      if ev["outcome"] == "ok":
        want = float(live["value"])
        got = h.est.threshold_
        if not (isinstance(got, float) and (got == want or (got != got and want != want))):
          raise Violation("threshold_model", "set_threshold,stored",
                          "set_threshold(%r) stored threshold_=%r" % (live["value"], got))
        m.cov["set_threshold_ok"] += 1
      else:
        if state_digest(h.est) != live["state_before"]:
          raise Violation("threshold_model", "failed_set_threshold_changed_state",
                          "set_threshold(%r) raised %s but changed the fitted state"
                          % (live.get("value"), ev["outcome"]))
        m.cov["set_threshold_rejected"] += 1
    elif kind == "calibrate" and str(ev.get("outcome", "")).startswith("exc"):
      if state_digest(h.est) != live["state_before"] and not _valid_cp(live["cp"]):
        raise Violation("threshold_model", "failed_calibrate_changed_state",
                        "calibrate_threshold(%r) raised %s but changed the fitted state"
                        % (live["cp"], ev["outcome"]))
    elif kind == "sweep" and live.get("sweep"):
      prev = None
      for v, thr, pred, dist in live["sweep"]:
        if thr != float(v):
          raise Violation("threshold_model", "set_threshold,stored",
                          "set_threshold(%r) stored %r" % (v, thr))
        exp = np.where(dist <= thr, 1, -1)
        if not np.array_equal(pred, exp):
          raise Violation("pairs_predict", "cls=%s,sweep" % h.name,
                          "threshold %r distances %r predicted %r" % (thr, dist.tolist(), pred.tolist()))
        if prev is not None and np.any(pred < prev):
          raise Violation("pairs_monotone", "cls=%s" % h.name,
                          "predictions not monotone in the threshold: %r then %r"
                          % (prev.tolist(), pred.tolist()))
        prev = pred
      # monotone in the distance for a fixed threshold
      v, thr, pred, dist = live["sweep"][-1]
      o = np.argsort(dist, kind="stable")
      if np.any(np.diff(pred[o]) > 0):
        raise Violation("pairs_monotone", "cls=%s,in_distance" % h.name,
                        "prediction increases with distance: %r %r" % (dist[o].tolist(), pred[o].tolist()))
      m.cov["sweeps_checked"] += 1
      self.checked += 1
    elif kind == "query" and ev.get("outcome") == "ok" and ts and h.defined and \
        op["method"] in ("predict", "decision_function", "score"):
      self.check_query(m, op, ev, live, h, ts)

  def threshold_model(self, m, op, ev, h_op):
    """Reference model of the threshold state: threshold_ of an estimator only
    changes through a writer (fit, set_threshold, calibrate_threshold, sweep)
    performed on *that* estimator; it survives queries, failed writers, pickle
    restarts and whatever happens to other estimators."""
    if not hasattr(self, "thr"):
      self.thr = {}
    writers = ("fit", "set_threshold", "calibrate", "sweep", "set_params", "new", "clone")
    for hid, hh in m.handles.items():
      if hh.est is None or not hasattr(hh.est, "set_threshold"):
        continue
      cur = vars(hh.est).get("threshold_", getattr(hh.est, "threshold_", None))
      cur = None if cur is None else float(cur).hex()
      is_writer = op["op"] in writers and hid in (op.get("h"), op.get("h2"))
      if not is_writer and hid in self.thr and self.thr[hid] != cur:
        raise Violation("threshold_model", "changed_without_writer,op=%s" % op["op"],
                        "threshold_ of %s (handle %s) went from %s to %s during %s on handle %r"
                        % (hh.name, hid, self.thr[hid], cur, op["op"], op.get("h")))
      self.thr[hid] = cur
    m.cov["threshold_model_checks"] += 1

  def check_query(self, m, op, ev, live, h, ts):
    est = h.est
    D = live["D"]
    arg = live["args"][0]
    formed = D.S[arg] if live["via"] == "indices" else arg
    if formed.shape[-1] != h.d_fit:
      return
    method = op["method"]
    with world.observed():
      df = est.decision_function(arg)
      pred = est.predict(arg) if (ts != 2 or hasattr(est, "threshold_")) else None
    info = live.get("probe_info") or {}
    if info.get("huge_row") is not None and live["via"] == "formed" and len(formed) == len(df):
      # the batch held one astronomically long tuple: the answers for the other tuples - taken
      # from that same call - are judged against distances computed without it
      keep = np.arange(len(df)) != info["huge_row"]
      hp = None if pred is None else int(pred[info["huge_row"]])
      if hp is not None and hp not in ((1, -1) if ts != 4 else (1, -1, 0)):
        raise Violation("predict_values", "cls=%s,huge" % h.name, "prediction %r for the long tuple" % hp)
      df, formed = df[keep], formed[keep]
      pred = None if pred is None else pred[keep]
      m.cov["batches_with_overflowing_tuple"] += 1
      # the reference distances come from calls with another number of rows: BLAS may round
      # the same product differently for another batch shape (seen: 2 ulp on well-conditioned
      # data, 86 ulp with an ill-conditioned L at global scale 1e4), so these cross-call
      # comparisons are made at ~1e-9 relative (2**22 ulp) instead of 1-4 ulp
      U = 2 ** 22
    else:
      U = 1
    if ts == 2:
      dist = est.pair_distance(formed)
      if not ulp_close(df, -dist, U):
        raise Violation("pairs_decision_function", "cls=%s" % h.name,
                        "decision_function %r != -pair_distance %r" % (df.tolist(), dist.tolist()))
      thr = est.threshold_
      exp = np.where(-df <= thr, 1, -1)
      if pred is None or not np.array_equal(pred, exp):
        raise Violation("pairs_predict", "cls=%s,writer=%s" % (h.name, _writer(h)),
                        "threshold_=%r distances=%r predict=%r expected=%r"
                        % (thr, (-df).tolist(), None if pred is None else pred.tolist(), exp.tolist()))
      # also against the independently obtained distance, away from the cut
      far = np.abs(dist - thr) > 4 * U * np.spacing(np.maximum(np.abs(dist), abs(thr)))
      exp2 = np.where(dist <= thr, 1, -1)
      if not np.array_equal(pred[far], exp2[far]):
        raise Violation("pairs_predict", "cls=%s,vs_pair_distance" % h.name,
                        "predict disagrees with pair_distance <= threshold_")
      if np.any(-df == thr):
        m.cov["distance_equals_threshold"] += 1
      if method == "score":
        y = live["args"][1]
        ref = auc_ties(y, df)
        if ref is not None and abs(live["out"] - ref) > 1e-12:
          raise Violation("pairs_score", "cls=%s" % h.name,
                          "score=%r but ROC-AUC of the decision function is %r" % (live["out"], ref))
        m.cov["auc_checked"] += 1
    elif ts == 3:
      dab = est.pair_distance(formed[:, [0, 1]])
      dac = est.pair_distance(formed[:, [0, 2]])
      if not close_diff(df, dac - dab, np.maximum(dab, dac), 2 * U):
        raise Violation("triplets_decision_function", "cls=%s" % h.name,
                        "decision_function %r != d(a,c)-d(a,b) %r" % (df.tolist(), (dac - dab).tolist()))
      exp = np.where(df > 0, 1, -1)
      if not np.array_equal(pred, exp):
        raise Violation("triplets_predict", "cls=%s,vs_decision" % h.name,
                        "predict %r, decision_function %r" % (pred.tolist(), df.tolist()))
      clear = np.abs(dac - dab) > 4 * U * np.spacing(np.maximum(dab, dac))
      exp2 = np.where(dab < dac, 1, -1)
      if not np.array_equal(pred[clear], exp2[clear]):
        raise Violation("triplets_predict", "cls=%s,vs_distances" % h.name,
                        "predict %r but d(a,b)=%r d(a,c)=%r" % (pred.tolist(), dab.tolist(), dac.tolist()))
      same_bc = np.all(formed[:, 1] == formed[:, 2], axis=1)
      if np.any(same_bc):
        m.cov["triplet_exact_ties"] += int(same_bc.sum())
        if np.any(df[same_bc] != 0) or np.any(pred[same_bc] != -1):
          raise Violation("triplets_predict", "cls=%s,tie" % h.name,
                          "b == c must give decision 0 and prediction -1: %r %r"
                          % (df[same_bc].tolist(), pred[same_bc].tolist()))
      sw = formed[:, [0, 2, 1]]
      df2 = est.decision_function(sw)
      if not close_diff(df2, -df, np.maximum(dab, dac), 2 * U):
        raise Violation("triplets_swap", "cls=%s" % h.name,
                        "swapping b and c does not negate the decision function: %r vs %r"
                        % (df.tolist(), df2.tolist()))
      if method == "score":
        ref = float(np.mean(pred == 1))
        if abs(live["out"] - ref) > 1e-12:
          raise Violation("triplets_score", "cls=%s" % h.name,
                          "score=%r but fraction predicted +1 is %r" % (live["out"], ref))
    elif ts == 4:
      dab = est.pair_distance(formed[:, [0, 1]])
      dcd = est.pair_distance(formed[:, [2, 3]])
      if not close_diff(df, dcd - dab, np.maximum(dab, dcd), 2 * U):
        raise Violation("quadruplets_decision_function", "cls=%s" % h.name,
                        "decision_function %r != d(c,d)-d(a,b) %r" % (df.tolist(), (dcd - dab).tolist()))
      if not np.array_equal(pred, np.sign(df)):
        raise Violation("quadruplets_predict", "cls=%s,vs_decision" % h.name,
                        "predict %r, decision_function %r" % (pred.tolist(), df.tolist()))
      clear = np.abs(dcd - dab) > 4 * U * np.spacing(np.maximum(dab, dcd))
      if not np.array_equal(pred[clear], np.sign(dcd - dab)[clear]):
        raise Violation("quadruplets_predict", "cls=%s,vs_distances" % h.name,
                        "predict %r but d(a,b)=%r d(c,d)=%r" % (pred.tolist(), dab.tolist(), dcd.tolist()))
      same = np.all(formed[:, :2] == formed[:, 2:], axis=(1, 2))
      if np.any(same):
        m.cov["quadruplet_exact_ties"] += int(same.sum())
        if np.any(pred[same] != 0):
          raise Violation("quadruplets_predict", "cls=%s,tie" % h.name,
                          "identical pairs must give prediction 0: %r" % pred[same].tolist())
      df2 = est.decision_function(formed[:, [2, 3, 0, 1]])
      if not close_diff(df2, -df, np.maximum(dab, dcd), 2 * U):
        raise Violation("quadruplets_swap", "cls=%s" % h.name,
                        "swapping the pairs does not negate the decision function")
    if live["via"] == "formed":
      self.check_geometry(m, h, est, formed, ts, df, pred, live.get("probe_info"))
    self.checked += 1
    m.cov["classifier_queries_checked"] += 1
    m.cov["checked_via_" + live["via"]] += 1
    m.cov["checked_writer_" + _writer(h)] += 1


def _check_geometry(self, m, h, est, formed, ts, df, pred, info):
  """(i) the distances the classifier compares are the learned distances
  ||L (x - x')|| (loose tolerance, relative to the *difference*: an
  implementation that loses the difference of large coordinates fails it);
  (ii) tuples whose compared distances are equal by construction (translates
  on a dyadic grid) are ties: triplets -> decision 0 / prediction -1,
  quadruplets -> prediction 0, pairs -> equal decisions and predictions."""
  L = vars(est).get("components_")
  if not isinstance(L, np.ndarray) or L.ndim != 2 or not np.isfinite(L).all() or np.iscomplexobj(L):
    return
  F = np.asarray(formed, dtype=float)
  exact_int = np.asarray(formed).dtype.kind in "iu"
  nL2 = float(np.linalg.norm(L, 2)) ** 2
  cmp_pairs = [(0, 1)] if ts == 2 else ([(0, 1), (0, 2)] if ts == 3 else [(0, 1), (2, 3)])
  for i, j in cmp_pairs:
    v = F[:, j] - F[:, i]
    if exact_int:
      # whole-number coordinates: the difference is formed exactly in integer arithmetic
      Fi = np.asarray(formed).astype(np.int64)
      v = (Fi[:, j] - Fi[:, i]).astype(float)
    ref2 = ((v.dot(L.T)) ** 2).sum(axis=1)
    got = np.asarray(est.pair_distance(np.asarray(formed)[:, [i, j]]), dtype=float)   # in the caller's dtype
    tol = 1e-9 * ref2 + 1e-10 * nL2 * (v ** 2).sum(axis=1) + 1e-300
    bad = np.abs(got ** 2 - ref2) > tol
    if np.any(bad):
      k = int(np.argmax(bad))
      raise Violation("learned_distance", "cls=%s,far=%d" % (h.name, int(bool(info and info.get("far")))),
                      "pair_distance=%r but ||L(x-x')||=%r for x=%r x'=%r"
                      % (float(got[k]), float(np.sqrt(ref2[k])), F[k, i].tolist(), F[k, j].tolist()))
  m.cov["learned_distance_checked"] += 1
  if info and info.get("far"):
    m.cov["far_offset_probes"] += 1
  if info and info.get("f32"):
    m.cov["float32_probes"] += 1
  if info and info.get("int64_far"):
    m.cov["int64_beyond_2p53_probes"] += 1
  if not info or not info.get("ties"):
    return
  rows = [r_ for r_ in info["ties"] if r_ < len(F)]
  if ts == 3:
    for r_ in rows:
      m.cov["ties_by_translation"] += 1
      if df[r_] != 0 or pred[r_] != -1:
        raise Violation("triplets_predict", "cls=%s,tie_by_translation" % h.name,
                        "triplet (a, a+v, a-v) has d(a,b) == d(a,c): decision %r (must be 0), "
                        "prediction %r (must be -1); a=%r v=%r"
                        % (float(df[r_]), int(pred[r_]), F[r_, 0].tolist(), (F[r_, 1] - F[r_, 0]).tolist()))
  elif ts == 4:
    for r_ in rows:
      m.cov["ties_by_translation"] += 1
      if df[r_] != 0 or pred[r_] != 0:
        raise Violation("quadruplets_predict", "cls=%s,tie_by_translation" % h.name,
                        "quadruplet whose second pair is a translate of the first: decision %r, "
                        "prediction %r (both must be 0)" % (float(df[r_]), int(pred[r_])))
  else:
    for r_ in rows:
      if r_ + 1 >= len(F):
        continue
      m.cov["ties_by_translation"] += 1
      if df[r_] != df[r_ + 1] or (pred is not None and pred[r_] != pred[r_ + 1]):
        raise Violation("pairs_predict", "cls=%s,tie_by_translation" % h.name,
                        "two pairs with the same displacement: decisions %r / %r, predictions %r / %r"
                        % (float(df[r_]), float(df[r_ + 1]),
                           None if pred is None else int(pred[r_]), None if pred is None else int(pred[r_ + 1])))


Oracle.check_geometry = _check_geometry


def _writer(h):
  if h.thr_ops:
    return h.thr_ops[-1][0]
  return "fit"


def _valid_cp(cp):
  s = cp.get("strategy", "accuracy")
  if s not in ("accuracy", "f_beta", "max_tpr", "max_tnr"):
    return False
  if s in ("max_tpr", "max_tnr"):
    mr = cp.get("min_rate")
    return isinstance(mr, (int, float)) and 0 <= mr <= 1
  if s == "f_beta":
    return isinstance(cp.get("beta", 1.0), (int, float))
  return True


def gen_plan(seed, tier):
  return gen_history(
      seed, tier, classes=TUPLE_LEARNERS, n_ops=(6, 16), dmax=6, pre_p=0.4, classifier_bias=4,
      dataset_kinds=["blobs", "blobs", "grid"], tiny_scale_p=0.15, grid_p=0.3, view_p=0.35, int_rows_p=0.2, one_class_p=0.05,
      weights=dict(query=40, refit=8, threshold=18, calibrate=10, sweep=8, handout=0, mutate=0,
                   restart=5, clone=2, ambient=2, eigsh=0, set_nondata=2, failfit=2,
                   fault=0, new=6, swap_pre=4))


def run_plan(plan):
  orc = Oracle()
  m = Machine(plan, [orc]).run()
  shape = "|".join("%s:%s" % (e.get("op"), e.get("cls") or e.get("method") or e.get("vkind") or "")
                   for e in m.events)
  return m.result(shape="%016x" % h64(shape), nontrivial=orc.checked > 0)


def shrink_moves(plan, violation):
  return history_shrink_moves(plan, violation)
