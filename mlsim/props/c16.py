"""C16 - threshold calibration picks an optimal cut-off for the chosen
criterion; invalid calibration parameters are rejected before any fitting work.

Simulator dimension: H (threshold is history state: calibrate / fit with
calibration_params on live handles) and F-as-probe (the ordering clause is a
statement about the *interaction trace* of fit: no preprocessor call, PRNG
request or solver call before the rejection).  The optimality clause itself is
decided per instance by brute force over all distinct cut-offs (sampled, not
searched by the simulator)."""
import numpy as np

from .. import world
from ..core import Violation, h64, state_digest
from ..estimators import PAIRS
from ..histgen import gen_history, history_shrink_moves
from ..machine import Machine
from .c04 import _valid_cp

ID = "C16"
TIERS = {"quick": dict(runs=1000, budget=40, det=12),
         "thorough": dict(runs=80000, budget=560, det=120)}
RULE = ("seeded histories on ITML/MMC/SDML: fit(calibration_params=valid|invalid), "
        "calibrate_threshold on validation pairs with tied distances (integer-grid points), "
        "duplicated pairs with conflicting labels and zero distances, four strategies x beta x "
        "min_rate, invalid parameters on fresh and fitted handles, with a recording preprocessor "
        "store, PRNG observer and solver observer attached; each successful calibration is decided "
        "by brute force over all distinct cut-offs; non-trivial = >=1 calibration brute-forced or "
        ">=1 rejection trace checked; distinct = distinct (op:estimator/strategy) sequences")
REAL_VS_STUB = dict(real=["metric_learn", "scikit-learn roc_curve / precision_recall_curve", "numpy"],
                    stub=["preprocessor PointStore (call trace)", "PRNG observer", "graphical-lasso observer"])
ASSUMPTIONS = ["distances are the implementation's own pair_distance on the validation pairs",
               "criterion comparisons with tolerance 1e-12"]
EPS = 1e-12


def _rate_ok(num, den, min_rate):
  """Admissibility of rate num/den >= min_rate evaluated three ways (exact
  rational, direct float quotient, one-minus-complement as ROC code does);
  returns (all agree admissible, any says admissible)."""
  from fractions import Fraction
  if den == 0:
    return False, False
  v = [Fraction(int(num), int(den)) >= Fraction(min_rate),
       num / den >= min_rate,
       1 - (den - num) / den >= min_rate]
  return all(v), any(v)


def criterion(strategy, y, pred, beta=1.0, min_rate=None):
  """(required-admissible, possibly-admissible, value) of the criterion."""
  y = np.asarray(y)
  pos, neg = (y == 1), (y == -1)
  tp = float(np.sum((pred == 1) & pos))
  fp = float(np.sum((pred == 1) & neg))
  fn = float(np.sum((pred == -1) & pos))
  tn = float(np.sum((pred == -1) & neg))
  if strategy == "accuracy":
    return True, True, (tp + tn) / len(y)
  if strategy == "f_beta":
    p = tp / (tp + fp) if tp + fp > 0 else 0.0
    r = tp / (tp + fn) if tp + fn > 0 else 0.0
    den = beta * beta * p + r
    return True, True, ((1 + beta * beta) * p * r / den) if den > 0 else 0.0
  tpr = tp / (tp + fn) if tp + fn > 0 else 0.0
  tnr = tn / (tn + fp) if tn + fp > 0 else 0.0
  if strategy == "max_tpr":
    a, b = _rate_ok(tn, tn + fp, min_rate)
    return a, b, tpr
  if strategy == "max_tnr":
    a, b = _rate_ok(tp, tp + fn, min_rate)
    return a, b, tnr
  raise ValueError(strategy)


def brute_force(strategy, d, y, beta=1.0, min_rate=None):
  """Best criterion value over every distinct cut-off (accept all pairs with
  distance <= c) and the reject-all cut-off, among the cut-offs that are
  admissible however the rate is evaluated in floating point."""
  best, arg = None, None
  cands = [None] + sorted(set(d.tolist()))
  for c in cands:
    pred = -np.ones(len(d), dtype=int) if c is None else np.where(d <= c, 1, -1)
    req, _, v = criterion(strategy, y, pred, beta, min_rate)
    if req and (best is None or v > best):
      best, arg = v, c
  return best, arg


class Oracle(object):
  def __init__(self):
    self.checked = 0

  def after(self, m, op, ev, live):
    kind = op["op"]
    h = live.get("handle")
    if h is None or h.est is None or h.name not in PAIRS:
      return
    if kind == "calibrate" and ev.get("outcome") not in (None, "skip"):
      cp = live["cp"]
      if not _valid_cp(cp):
        self.rejection(m, ev, live, h, "calibrate_threshold", cp)
      elif ev["outcome"] == "ok":
        pairs = live["pairs"]
        formed = live["D"].S[pairs] if live["via"] == "indices" else pairs
        self.optimal(m, h, formed, live["y"], cp, "calibrate_threshold")
      elif h.defined and not live.get("fault_fired") and len(set(np.asarray(live["y"]).tolist())) == 2 \
          and ev["outcome"] not in ("exc:PreprocessorError",):
        # valid parameters, a fitted estimator, a validation set with both labels: every
        # strategy has an admissible cut-off (reject all / accept all), so there is an optimum
        raise Violation("calibration_raises", "strategy=%s,exc=%s" % (cp.get("strategy", "accuracy"),
                                                                    ev["outcome"].replace("exc:", "")),
                        "calibrate_threshold(%r) raised %s on a validation set with both labels: %s"
                        % (cp, ev["outcome"], str(live.get("exc"))[:160]))
    elif kind == "fit" and not op.get("malformed") and ev.get("outcome") != "skip":
      cp = live["kwargs"].get("calibration_params")
      if cp is None:
        # documented: without calibration_params the threshold is calibrated with
        # calibrate_threshold's defaults, i.e. for accuracy
        cp = {}
        m.cov["fits_with_default_calibration"] += 1
      if not _valid_cp(cp):
        self.rejection(m, ev, live, h, "fit", cp)
      elif ev["outcome"] == "ok":
        args = live["args"]
        formed = live["D"].S[args[0]] if live["via"] == "indices" else args[0]
        self.optimal(m, h, formed, args[1], cp, "fit")

  def rejection(self, m, ev, live, h, where, cp):
    if ev["outcome"] != "exc:ValueError":
      raise Violation("rejects_invalid_params", "%s,outcome=%s" % (where, ev["outcome"].split(":")[0]),
                      "%s with invalid calibration parameters %r gave %s instead of ValueError"
                      % (where, cp, ev["outcome"]))
    trace = []
    if live.get("store_calls") or ev.get("store_calls"):
      trace.append("preprocessor")
    if live.get("rng_requests") or live.get("draws"):
      trace.append("prng")
    if live.get("solver_calls"):
      trace.append("solver")
    if state_digest(h.est) != live["state_before"]:
      trace.append("fitted_state")
    if trace:
      raise Violation("rejects_before_work", "%s,touched=%s" % (where, trace[0]),
                      "%s rejected %r only after touching %s" % (where, cp, trace))
    m.cov["rejections_checked"] += 1
    m.cov["rejections_" + where] += 1
    if h.store is not None:
      m.cov["rejections_with_store_trace"] += 1
    self.checked += 1

  def optimal(self, m, h, formed, y, cp, where):
    est = h.est
    strategy = cp.get("strategy", "accuracy")
    beta = cp.get("beta", 1.0)
    min_rate = cp.get("min_rate")
    with world.observed():
      d = est.pair_distance(formed)
      pred = est.predict(formed)
    if not np.isfinite(d).all():
      return
    thr = est.threshold_
    _, ok, got = criterion(strategy, y, pred, beta, min_rate)
    best, arg = brute_force(strategy, d, y, beta, min_rate)
    ties = len(set(d.tolist())) < len(d)
    m.cov["calibrations_bruteforced"] += 1
    m.cov["calibrations_%s" % strategy] += 1
    m.cov["calibrations_with_ties"] += int(ties)
    m.cov["calibrations_via_" + where] += 1
    self.checked += 1
    tag = "strategy=%s/%s" % (strategy, "ties" if ties else "distinct")
    if not ok:
      raise Violation("calibration_admissible", tag,
                      "%s: threshold_=%r violates the min_rate=%r constraint (distances %r labels %r)"
                      % (where, thr, min_rate, np.round(d, 6).tolist(), np.asarray(y).tolist()))
    if best is not None and got < best - EPS:
      raise Violation("calibration_optimal", tag,
                      "%s: threshold_=%r attains %s=%.6g but cut-off %r attains %.6g "
                      "(distances %r labels %r cp %r)"
                      % (where, thr, strategy, got, arg, best, np.round(d, 6).tolist(),
                         np.asarray(y).tolist(), cp))


def gen_plan(seed, tier):
  return gen_history(
      seed, tier, classes=PAIRS, n_ops=(5, 14), dmax=5, pre_p=0.5, store_bias=4,
      dataset_kinds=["grid", "grid", "blobs"], cp_fit_p=0.7, cp_invalid_p=0.3,
      calib_invalid_p=0.3, extras_p=0.2,
      weights=dict(query=6, refit=22, threshold=5, calibrate=45, sweep=0, handout=0, mutate=0,
                   restart=4, clone=2, ambient=2, eigsh=0, set_nondata=0, failfit=0,
                   fault=0, new=10, swap_pre=10), view_p=0.35, one_class_p=0.1)


def run_plan(plan):
  orc = Oracle()
  m = Machine(plan, [orc]).run()
  shape = "|".join("%s:%s:%s" % (e.get("op"), e.get("cls") or "", str(e.get("cp") or "")[:40])
                   for e in m.events)
  return m.result(shape="%016x" % h64(shape), nontrivial=orc.checked > 0)


def shrink_moves(plan, violation):
  return history_shrink_moves(plan, violation)
