"""C09 - closed-form learners compute their documented formula.

Simulator dimension (partial claim): R and F on LFDA - with n_components < d
the components come out of ARPACK, whose start vector is fresh OS entropy
unless the simulator owns it, and the statement must hold along every branch of
the fallback chain eigsh -> eigh -> eig.  The simulator varies the start seed
per fit and forces ArpackNoConvergence.  Covariance and RCA have no such
dimension; they are evaluated fault-free against the same kind of reference
(sampled differential checks that ride along because the property is one
statement)."""
import collections
import copy

import numpy as np

from .. import world
from ..core import Violation, Inconclusive, h64, digest, substream, log_digest, rel_err
from ..data import make_data
from ..refmodels import closed_form as cf

ID = "C09"
TIERS = {"quick": dict(runs=2500, budget=40, det=12, chunk=20),
         "thorough": dict(runs=250000, budget=560, det=120, chunk=40)}
INCONCLUSIVE_CEILING = 0.10
RULE = ("seeded runs: LFDA (k, embedding_type, n_components in 1..d, unbalanced classes, classes "
        "smaller than k) fitted 2-3 times under different ARPACK start seeds and under forced "
        "ArpackNoConvergence (also followed by a forced LinAlgError of the dense symmetric solver, "
        "i.e. down to the last link eigsh -> eigh -> eig of the fallback chain); Covariance (also singular covariance) and RCA (any chunk layout, "
        "unknown chunk label -1, n_components in 1..d) fault-free; every fit compared with an "
        "independent O(n^2) evaluation of the definition on quantities invariant to eigenvector "
        "sign/rotation; non-trivial = >=1 fit compared (eigen-gap guard passed); distinct = distinct "
        "(estimator, options, seam mode, layout) signatures")
REAL_VS_STUB = dict(real=["metric_learn Covariance/RCA/LFDA", "scipy ARPACK eigsh, eigh", "numpy"],
                    stub=["ARPACK start vector (rng=<sim seed>)", "forced ArpackNoConvergence",
                          "forced LinAlgError of scipy.linalg.eigh for calls made from metric_learn/lfda.py"])
ASSUMPTIONS = ["generalised eigenvectors are normalised Sw-orthonormal (the convention of scipy eigh/"
               "eigsh) for the 'plain' and 'weighted' embeddings",
               "comparison at relative tolerance 1e-6, only when the relevant eigen-gap exceeds 1e-6"]
TOL = 1e-6
GAP = 1e-6


def gen_plan(seed, tier):
  r = substream(seed, "c09")
  cls = r.choice(["LFDA", "LFDA", "LFDA", "Covariance", "RCA"])
  d = r.randint(2, 8)
  c = r.choice([2, 3, 3, 4])
  if cls == "LFDA" and r.random() < 0.6:
    sizes = [r.choice([1, 2, 3, 4, 5, 6, 9, 14]) for _ in range(c)]
    if sum(1 for z in sizes if z >= 2) == 0:
      sizes[0] = 5
    n = sum(sizes)
    while n < 4 * d:
      sizes[r.randrange(c)] += 4
      n = sum(sizes)
  else:
    sizes = None
    n = max(4 * d, 5 * c) + r.randint(0, 20)
  desc = dict(kind="blobs", seed=r.randrange(10**6), n=n, d=d, classes=c,
              cond=r.choice([1, 10, 100]), scale=r.choice([0, 0, 0.5, 1]),
              sep=r.choice([0.5, 2.0, 4.0]))
  if sizes:
    desc["class_sizes"] = sizes
  if r.random() < 0.25:
    desc["label_stride"], desc["label_offset"] = r.choice([1, 3]), r.choice([2, 7])
  params = {}
  fits = [dict(mode="seeded", seed=1)]
  if cls == "LFDA":
    params["n_components"] = r.choice([None] + list(range(1, d + 1)))
    params["k"] = r.choice([None, None, 1, 2, 3, 5, 7, 9])
    params["embedding_type"] = r.choice(["weighted", "orthonormalized", "plain"])
    fits = [dict(mode="seeded", seed=r.randrange(2**31)) for _ in range(r.randint(1, 2))]
    fits.insert(r.randrange(len(fits) + 1), dict(mode=r.choice(["fail", "seeded", "fail", "fail2"]),
                                                  seed=r.randrange(2**31)))
  elif cls == "RCA":
    params["n_components"] = r.choice([None] + list(range(1, d + 1)))
  else:
    if r.random() < 0.3:
      desc["kind"] = "lowrank"
  rc = substream(seed, "c09-caller")
  if cls != "LFDA" and rc.random() < 0.4:
    fits = fits + [dict(mode="seeded", seed=2)]
  plan = dict(run_seed=seed, cls=cls, dataset=desc, params=params, fits=fits)
  if rc.random() < 0.5:
    plan["same_arrays"] = True      # the caller passes the very same arrays to every fit of the run
  r2 = substream(seed, "c09-layout")
  r3 = substream(seed, "c09-faults")
  if cls == "Covariance" and r3.random() < 0.15:
    plan["pinvh_fault"] = True          # the eigen-solver behind the pseudo-inverse fails once
  if cls == "RCA" and r3.random() < 0.3:
    plan["singleton_chunks"] = r3.randint(1, 3)
  if cls == "RCA" and r2.random() < 0.5:
    # chunklet ids are arbitrary non-negative integers: "chunks[i] == j: point i
    # belongs to chunklet j" (one-based ids, gaps, any order)
    plan["chunk_ids"] = r2.choice(["onebased", "gaps", "shuffled", "gaps_shuffled"])
  if cls in ("Covariance", "RCA") and r2.random() < 0.3:
    desc["global_scale"] = r2.choice([1e-8, 1e-6, 1e-3, 1e3, 1e6])     # units are arbitrary
  elif cls == "LFDA" and r2.random() < 0.15:
    desc["global_scale"] = r2.choice([1e-3, 1e3])
  r4 = substream(seed, "c09-f32")
  if cls == "Covariance" and not desc.get("global_scale") and desc.get("kind") != "lowrank" and r4.random() < 0.2:
    # single-precision measurements whose features live on very different scales (legal input;
    # the documented formula is the pseudo-inverse of *their* covariance)
    plan["f32_cols"] = r4.choice([2.0, 3.0, 3.5])
  if r4.random() < 0.4:
    plan["pickled_before_fit"] = True     # the estimator went through a pickle round trip before it is fitted
  r6 = substream(seed, "c09-earlier")
  if cls == "LFDA" and r6.random() < 0.3:
    plan["earlier_life"] = dict(embedding_type=r6.choice([e for e in ("weighted", "orthonormalized", "plain")
                                                          if e != params["embedding_type"]]),
                                k=r6.choice([None, 1, 2, 3, 5]))
  if cls == "LFDA" and r2.random() < 0.15:
    # repeated measurements: a point whose k nearest class-mates coincide with it has
    # local scale 0, and the documented affinity of such a pair is 0
    desc["same_class_dups"] = r2.randint(1, 3)
  return plan


def _relabel_chunks(chunks, how, seed):
  """The same chunklets under other (legal) ids."""
  if not how:
    return chunks
  ids = np.unique(chunks[chunks >= 0])
  rs = np.random.RandomState(h64("chunk-ids", seed) & 0xFFFFFFFF)
  new = np.arange(len(ids))
  if how == "onebased":
    new = new + 1
  elif how in ("gaps", "gaps_shuffled"):
    new = np.cumsum(rs.randint(1, 4, size=len(ids)))
  if how in ("shuffled", "gaps_shuffled"):
    new = rs.permutation(new)
  out = chunks.copy()
  for a, b in zip(ids, new):
    out[chunks == a] = b
  return out


def run_plan(plan):
  import metric_learn as ml
  cov = collections.Counter()
  events = []
  inconclusive = []
  violation = None
  compared = 0
  cls = plan["cls"]
  D = make_data(plan["dataset"])
  X, y = D.X, D.y
  d = D.d
  if plan.get("f32_cols") and cls == "Covariance":
    rsc = np.random.RandomState(h64("c09-f32", plan["run_seed"]) & 0xFFFFFFFF)
    colscale = 10.0 ** rsc.permutation(np.linspace(0.0, float(plan["f32_cols"]), d))
    X = (X * colscale).astype(np.float32)
    cov["covariance_float32_scaled_columns"] += 1
  if plan["dataset"].get("same_class_dups"):
    X = X.copy()
    rd = np.random.RandomState(h64("c09-dups", plan["run_seed"]) & 0xFFFFFFFF)
    done = 0
    for _ in range(int(plan["dataset"]["same_class_dups"])):
      c_ = rd.choice(np.unique(y))
      mem = np.where(y == c_)[0]
      if len(mem) >= 8 and done < 2:      # a few repeated measurements in a class that stays well spread
        src = mem[rd.randint(len(mem))]
        for t_ in rd.permutation(mem[mem != src])[:rd.randint(1, 3)]:
          X[t_] = X[src]
        done += 1
    cov["lfda_same_class_duplicates"] += int(done > 0)
  if cls == "RCA" and plan.get("singleton_chunks"):
    # chunklets of a single point are legal: they contribute a zero row to the scatter
    rsg = np.random.RandomState(h64("c09-single", plan["run_seed"]) & 0xFFFFFFFF)
    free = np.where(D.chunks < 0)[0]
    nxt = int(D.chunks.max()) + 1
    take = list(rsg.permutation(free)[:int(plan["singleton_chunks"])])
    if len(take) < int(plan["singleton_chunks"]):
      big = [c_ for c_ in np.unique(D.chunks[D.chunks >= 0]) if (D.chunks == c_).sum() >= 3]
      for c_ in big[:int(plan["singleton_chunks"]) - len(take)]:
        take.append(int(np.where(D.chunks == c_)[0][0]))
    for t_ in take:
      D.chunks[t_] = nxt
      nxt += 1
    cov["rca_singleton_chunks"] += int(len(take) > 0)
  if cls == "RCA":
    D.chunks = _relabel_chunks(D.chunks, plan.get("chunk_ids"), plan["run_seed"])
    cov["rca_chunk_ids_" + str(plan.get("chunk_ids") or "contiguous")] += 1
  if plan["dataset"].get("global_scale"):
    cov["global_scale_%g" % plan["dataset"]["global_scale"]] += 1
  p = dict(plan["params"])
  shape = [cls, repr(sorted(p.items())), repr(plan["dataset"].get("class_sizes")),
           plan["dataset"]["kind"]]
  caller = None
  if plan.get("same_arrays"):
    caller = (X.copy(), (D.chunks if cls == "RCA" else y).copy())
    cov["same_arrays_for_every_fit"] += 1
  try:
    for i, ft in enumerate(plan["fits"]):
      est = getattr(ml, cls)(**p)
      if plan.get("pickled_before_fit"):
        import pickle
        est = pickle.loads(pickle.dumps(est))
        cov["pickled_before_fit"] += 1
      if plan.get("earlier_life"):
        # the object was used before with other hyper-parameters (set_params, fit, set_params back):
        # the judged fit must compute the formula of the parameters it has now
        world.EIGSH.mode, world.EIGSH.seed = "seeded", ft["seed"] ^ 0x5bd1
        try:
          with world.observed():
            est.set_params(**plan["earlier_life"])
            est.fit(X.copy(), y.copy())
        except Exception:
          pass
        est.set_params(**{k: p[k] for k in plan["earlier_life"]})
        cov["earlier_life_other_params"] += 1
      world.EIGSH.mode, world.EIGSH.seed = ft["mode"], ft["seed"]
      c0, f0 = world.EIGSH.calls, world.EIGSH.forced
      g0 = world.EIGSH.eigh_forced
      pf = world.PinvhSeam(fail_first=bool(plan.get("pinvh_fault")))
      with world.observed() as wl, pf:
        try:
          ax, ay = caller if caller is not None else (X.copy(), (D.chunks if cls == "RCA" else y).copy())
          if cls == "Covariance":
            est.fit(ax)
          else:
            est.fit(ax, ay)
          outcome = "ok"
        except Exception as e:
          outcome, exc = "exc:" + type(e).__name__, e
      if not np.array_equal(ax, X) or not np.array_equal(ay, D.chunks if cls == "RCA" else y):
        raise Violation("inputs_modified", "cls=%s,arg=%s" % (cls, "X" if not np.array_equal(ax, X) else "labels"),
                        "fit #%d changed the caller's %s" % (i + 1, "points" if not np.array_equal(ax, X) else "labels / chunks"))
      ncalls, nforced = world.EIGSH.calls - c0, world.EIGSH.forced - f0
      nforced2 = world.EIGSH.eigh_forced - g0
      cov["eigh_forced_linalgerror"] += nforced2
      world.EIGSH.mode = "seeded"
      cov["eigsh_calls"] += ncalls
      cov["eigsh_forced_noconv"] += nforced
      ev = dict(i=i, mode=ft["mode"], outcome=outcome, eigsh=[ncalls, nforced])
      events.append(ev)
      shape.append("%s/%d" % (ft["mode"], int(nforced > 0)))
      if pf.fired:
        cov["pinvh_fault_fired"] += 1
      if outcome != "ok":
        if nforced or pf.fired:
          inconclusive.append("solver_exception_propagated_under_forced_failure")
          continue
        raise Violation("fit_raises", "cls=%s,exc=%s" % (cls, outcome[4:]),
                        "%s.fit raised %s: %s" % (cls, outcome, str(exc)[:200]))
      L = est.components_
      if np.iscomplexobj(L) or not np.isfinite(L).all():
        if cls == "RCA" and np.linalg.matrix_rank(cf.rca_ref(X, D.chunks)["C"]) < d:
          inconclusive.append("rca_singular_within_chunk_scatter")
          continue
        raise Violation("formula", "cls=%s,not_real_finite" % cls, "components_ complex or non-finite")
      M = L.T.dot(L)
      ev["M"] = digest(np.round(M / (np.abs(M).max() + 1e-300), 9))
      if cls == "Covariance":
        Mr, rank, w = cf.covariance_ref(np.asarray(X, dtype=float))
        wpos = w[w > 0]
        if len(wpos) and rank < d:
          # singular covariance: make sure the cut between kept/dropped eigenvalues is clear
          ws = np.sort(np.abs(w))[::-1]
          if ws[rank] > 2e-15 * ws[0]:      # (the library keeps what exceeds ~d*eps, the reference what exceeds 1e-10)
            inconclusive.append("covariance_rank_ambiguous")
            continue
          cov["covariance_singular"] += 1
        e = rel_err(M, Mr)
        if e > TOL:
          raise Violation("formula", "cls=Covariance,%s" % ("singular" if rank < d else "full_rank"),
                          "M differs from pinv(cov(X)): relative %.3g" % e)
      elif cls == "RCA":
        dim = p.get("n_components")
        ref = cf.rca_ref(X, D.chunks, dim)
        if ref["rank"] < d:
          inconclusive.append("rca_singular_within_chunk_scatter")
          continue
        if ref["gap"] < GAP:
          inconclusive.append("rca_eigen_gap")
          continue
        k = d if dim is None else dim
        if L.shape != (k, d):
          raise Violation("formula", "cls=RCA,shape", "components_ shape %s" % (L.shape,))
        W = L.dot(ref["C"]).dot(L.T)
        if np.abs(W - np.eye(k)).max() > 1e-6:
          raise Violation("formula", "cls=RCA,whitening",
                          "within-chunk covariance of the transformed data is not the identity "
                          "(max deviation %.3g)" % np.abs(W - np.eye(k)).max())
        e = rel_err(M, ref["M"])
        if e > TOL:
          raise Violation("formula", "cls=RCA,%s" % ("reduced" if k < d else "full"),
                          "M differs from the reference (relative %.3g): retained directions are "
                          "not those maximising total-to-within-chunk variance" % e)
        cov["rca_unknown_chunk_labels"] += int(np.any(D.chunks < 0))
      else:
        dim = d if p.get("n_components") is None else p["n_components"]
        k = p.get("k")
        k_eff = min(7, d - 1) if k is None else (d - 1 if k >= d else k)
        try:
          ref = cf.lfda_ref(X, y, dim, k_eff, p["embedding_type"])
        except np.linalg.LinAlgError:
          # the reference's Cholesky of S_w failed: S_w is singular to rounding, nothing to compare
          inconclusive.append("lfda_within_scatter_ill_conditioned")
          continue
        wsw = np.linalg.eigvalsh(ref["Sw"])
        if wsw.min() <= 1e-8 * wsw.max():
          inconclusive.append("lfda_within_scatter_ill_conditioned")
          continue
        if ref["gap"] < GAP:
          inconclusive.append("lfda_eigen_gap")
          continue
        if p["embedding_type"] == "weighted" and ref["lam"][:dim].min() < 1e-9 * abs(ref["lam"][0]):
          inconclusive.append("lfda_nonpositive_eigenvalue")
          continue
        if L.shape != (dim, d):
          raise Violation("formula", "cls=LFDA,shape", "components_ shape %s" % (L.shape,))
        e = rel_err(M, ref["M"])
        small = any(n_c - 1 < k_eff for n_c in np.unique(y, return_counts=True)[1])
        cov["lfda_class_smaller_than_k"] += int(small)
        cov["lfda_path_" + ("arpack" if ncalls and not nforced else
                            "general_eig_after_two_forced_failures" if nforced2 else
                            "dense_after_forced_failure" if nforced else "dense")] += 1
        if e > TOL:
          which = _lfda_diagnose(X, y, dim, k_eff, p["embedding_type"], M, small)
          if nforced2:
            which += ",path=general_eig"
          raise Violation("formula", "cls=LFDA,%s" % which,
                          "M differs from the O(n^2) reference: relative %.3g (embedding %s, k=%r, "
                          "dim=%d, eigsh mode %s)" % (e, p["embedding_type"], k, dim, ft["mode"]))
        # ordering by decreasing eigenvalue: Rayleigh quotients of the rows
        if p["embedding_type"] != "orthonormalized" and dim > 1:
          num = np.einsum("ij,jk,ik->i", L, ref["Sb"], L)
          den = np.einsum("ij,jk,ik->i", L, ref["Sw"], L)
          q = num / den
          if np.any(np.diff(q) > 1e-6 * abs(q[0])):
            raise Violation("formula", "cls=LFDA,ordering",
                            "components are not ordered by decreasing eigenvalue: %r" % q.tolist())
      compared += 1
      cov["compared"] += 1
      cov["compared_" + cls] += 1
  except Violation as v:
    violation = dict(oracle=v.oracle, sig=v.sig, detail=v.detail, op=len(events) - 1)
  finally:
    world.EIGSH.mode = "seeded"
  return dict(digest=log_digest(events), violation=violation, cov=dict(cov), events=events,
              inconclusive=sorted(set(inconclusive)), shape="%016x" % h64("|".join(shape)),
              nontrivial=compared > 0)


def _lfda_diagnose(X, y, dim, k_eff, emb, M, small):
  """Discriminator for the signature: which part of the definition is off."""
  # invariant to eigenvalue scaling: compare the span of the components
  ref_o = cf.lfda_ref(X, y, dim, k_eff, "orthonormalized")
  w, V = np.linalg.eigh(M)
  Vk = V[:, -dim:]
  P = Vk.dot(Vk.T)
  if rel_err(P, ref_o["M"]) < 1e-6:
    return "weighted_scale" if emb == "weighted" else "scale"
  if small:
    return "local_scale_small_class"
  return "local_scale"


def shrink_moves(plan, violation):
  if len(plan["fits"]) > 1:
    vi = violation.get("op")
    if vi is not None and 0 <= vi < len(plan["fits"]):
      p = copy.deepcopy(plan)
      p["fits"] = [plan["fits"][vi]]
      yield p
  for k in sorted(plan["params"]):
    if plan["params"][k] is not None and k != "embedding_type":
      p = copy.deepcopy(plan)
      p["params"][k] = None
      yield p
  d = plan["dataset"]
  if d.get("class_sizes"):
    p = copy.deepcopy(plan)
    del p["dataset"]["class_sizes"]
    p["dataset"]["n"] = max(4 * d["d"], 5 * d["classes"])
    yield p
  for key, lo in (("n", max(4 * d["d"], 5 * d["classes"])), ("classes", 2), ("d", 2)):
    if d.get(key, 0) > lo and not d.get("class_sizes"):
      p = copy.deepcopy(plan)
      p["dataset"][key] = d[key] - 1 if key != "n" else max(lo, d[key] // 2)
      if key == "d":
        for kk in ("n_components", "k"):
          if p["params"].get(kk):
            p["params"][kk] = min(p["params"][kk], p["dataset"]["d"] - (kk == "k"))  or None
      yield p
  for key in ("scale", "global_scale"):
    if d.get(key):
      p = copy.deepcopy(plan)
      p["dataset"][key] = 0
      yield p
  if plan.get("chunk_ids"):
    p = copy.deepcopy(plan)
    del p["chunk_ids"]
    yield p
