"""C18 - constructor parameters round-trip: get_params, set_params, clone,
pickle; NotFittedError before fit; pickling preserves all outputs bit for bit.

Simulator dimension: H incl. restart - 'pickling preserves all outputs' is the
library's durability claim (crash/restart with only durable state surviving),
and the parameter clauses are quantified over set_params/clone/pickle
sequences.  Run index 0 of every batch is the exhaustive (estimator x
constructor parameter) sweep; the other runs are seeded histories."""
import inspect
import pickle
import warnings

import numpy as np
from sklearn.base import clone
from sklearn.exceptions import NotFittedError

from .. import world
from ..core import Violation, h64, digest, state_digest, substream, np_stream
from ..data import make_data
from ..estimators import ALL, cls_of, tuple_size, SPEC, fit_args
from ..histgen import gen_history, history_shrink_moves
from ..machine import Machine, same_outputs, layout_signature
from . import c17

ID = "C18"
TIERS = {"quick": dict(runs=700, budget=40, det=12),
         "thorough": dict(runs=40000, budget=560, det=120)}
RULE = ("run 0: exhaustive sweep of every (estimator, constructor parameter) pair with a plausible "
        "non-default value and an opaque sentinel (construction, set_params, clone, deprecated "
        "aliases, NotFittedError of every query method on fresh/cloned/re-parameterised handles); "
        "other runs: seeded histories over new/set_params/clone/fit/pickle restart (in-process and, "
        "rationed, fresh interpreter)/queries; non-trivial = the sweep, or a history with >=1 "
        "identity/clone/restart check; distinct = distinct (op:estimator) sequences")
REAL_VS_STUB = dict(real=["metric_learn", "sklearn.base.clone/get_params/set_params", "pickle",
                          "fresh python interpreter for process restarts"],
                    stub=["preprocessor PointStore", "ambient RNG state", "ARPACK start vector"])
ASSUMPTIONS = ["constructors must store, not validate (LFDA's embedding_type, the one validating "
               "constructor argument, only receives its option strings)"]

ALIASES = {"num_constraints": "n_constraints", "convergence_threshold": "tol",
           "num_chunks": "n_chunks", "k": "n_neighbors"}
QUERY = ["transform", "pair_distance", "pair_score", "score_pairs", "get_metric",
         "get_mahalanobis_matrix", "predict", "decision_function", "score",
         "set_threshold", "calibrate_threshold"]


class Sentinel(object):
  """An opaque value: constructors must store it untouched."""

  def __repr__(self):
    return "<sentinel>"


def ctor_params(name):
  sig = inspect.signature(cls_of(name).__init__)
  return [(p.name, p.default) for p in sig.parameters.values() if p.name != "self"]


def plausible(name, p, default, r):
  if name == "LFDA" and p == "embedding_type":
    return r.choice([x for x in ("weighted", "orthonormalized", "plain") if x != default])
  if p == "preprocessor":
    return r.choice([np.arange(12.0).reshape(4, 3), world.PointStore(np.eye(3))])
  if p == "random_state":
    return r.randrange(1, 10**6)
  if isinstance(default, bool):
    return not default
  if isinstance(default, int):
    v = default + r.randint(1, 5)
    return r.choice([v, v, np.int64(v), np.int32(v)])     # e.g. taken from np.arange in a grid search
  if isinstance(default, float):
    return default * 1.5 + 0.125
  if p in ("init", "prior"):
    return r.choice(["random", "covariance" if p == "prior" else "pca", np.eye(3) * 2.0])
  if p == "basis":
    return np.eye(3)
  if p == "weights":
    return np.array([1.0, 2.0])
  if default is None:
    return r.choice([3, 0.25, np.int64(3)])
  return "other-" + str(default)


def unfitted_queries(est, name, where):
  """Every query method of a never-fitted estimator raises NotFittedError."""
  ts = tuple_size(name) or 2
  X = np.arange(12.0).reshape(4, 3)
  T = np.arange(2 * ts * 3, dtype=float).reshape(2, ts, 3)
  P = np.arange(12.0).reshape(2, 2, 3)
  n = 0
  for meth in QUERY:
    if not hasattr(est, meth):
      continue
    f = getattr(est, meth)
    if meth == "transform":
      args = (X,)
    elif meth in ("pair_distance", "pair_score", "score_pairs"):
      args = (P,)
    elif meth in ("get_metric", "get_mahalanobis_matrix"):
      args = ()
    elif meth == "set_threshold":
      args = (0.5,)
    elif meth == "calibrate_threshold":
      args = (P, np.array([1, -1]))
    elif meth == "score":
      args = (T, np.array([1, -1])) if ts == 2 and hasattr(est, "set_threshold") else (T,)
    else:
      args = (T,)
    try:
      with warnings.catch_warnings():
        warnings.simplefilter("ignore")
        f(*args)
    except NotFittedError:
      n += 1
      continue
    except Exception as e:
      raise Violation("not_fitted_error", "cls=%s,method=%s,%s" % (name, meth, where),
                      "%s.%s on a never-fitted (%s) estimator raised %s instead of "
                      "NotFittedError: %s" % (name, meth, where, type(e).__name__, str(e)[:150]))
    raise Violation("not_fitted_error", "cls=%s,method=%s,%s" % (name, meth, where),
                    "%s.%s on a never-fitted (%s) estimator returned a value" % (name, meth, where))
  return n


def sweep(cov):
  r = substream(0, "c18-sweep")
  pairs = 0
  for name in ALL:
    cls = cls_of(name)
    params = ctor_params(name)
    with warnings.catch_warnings():
      warnings.simplefilter("ignore")
      cov["not_fitted_checks"] += unfitted_queries(cls(), name, "fresh")
    for p, default in params:
      if isinstance(default, str) and default == "deprecated":
        # deprecated alias: FutureWarning + replacement holds the value
        v = 7 if p != "convergence_threshold" else 0.125
        with warnings.catch_warnings(record=True) as wl:
          warnings.simplefilter("always")
          est = cls(**{p: v})
        if not any(issubclass(w.category, FutureWarning) for w in wl):
          raise Violation("deprecated_alias", "cls=%s,param=%s,no_warning" % (name, p),
                          "%s(%s=...) did not emit FutureWarning" % (name, p))
        tgt = ALIASES.get(p)
        got = est.get_params(deep=False).get(tgt)
        if got is not v and got != v:
          raise Violation("deprecated_alias", "cls=%s,param=%s,not_mapped" % (name, p),
                          "%s(%s=%r): %s is %r" % (name, p, v, tgt, got))
        # the alias is consumed at construction: a later set_params of the
        # replacement must win, and the estimator must stay clonable
        other = 11 if p != "convergence_threshold" else 0.375
        with warnings.catch_warnings():
          warnings.simplefilter("ignore")
          est.set_params(**{tgt: other})
          try:
            c = clone(est)
          except Exception as e:
            raise Violation("deprecated_alias", "cls=%s,param=%s,clone_raises" % (name, p),
                            "%s(%s=%r).set_params(%s=%r) cannot be cloned: %s"
                            % (name, p, v, tgt, other, str(e)[:160]))
          if c.get_params(deep=False).get(tgt) != other:
            raise Violation("deprecated_alias", "cls=%s,param=%s,clone_reverts" % (name, p),
                            "clone of %s(%s=%r).set_params(%s=%r) has %s=%r"
                            % (name, p, v, tgt, other, tgt, c.get_params(deep=False).get(tgt)))
        cov["alias_checks"] += 1
        continue
      values = [plausible(name, p, default, r)]
      if not (name == "LFDA" and p == "embedding_type"):
        values.append(Sentinel())
      for v in values:
        pairs += 1
        with warnings.catch_warnings():
          warnings.simplefilter("ignore")
          try:
            est = cls(**{p: v})
          except Exception as e:
            # constructors store their arguments untouched; they do not inspect them
            raise Violation("param_identity", "cls=%s,param=%s,constructor_raises" % (name, p),
                            "%s(%s=%r) raised %s: %s" % (name, p, v, type(e).__name__, str(e)[:160]))
          got = est.get_params(deep=False)[p]
          if got is not v:
            raise Violation("param_identity", "cls=%s,param=%s" % (name, p),
                            "%s(%s=%r).get_params()[%r] is %r" % (name, p, v, p, got))
          est2 = cls()
          est2.set_params(**{p: v})
          got = est2.get_params(deep=False)[p]
          if got is not v:
            raise Violation("param_identity", "cls=%s,param=%s,set_params" % (name, p),
                            "set_params(%s=%r) then get_params gives %r" % (p, v, got))
          try:
            c = clone(est)
          except Exception as e:
            raise Violation("clone", "cls=%s,param=%s,raises" % (name, p),
                            "clone(%s(%s=%r)) raised %s: %s" % (name, p, v, type(e).__name__,
                                                                 str(e)[:200]))
          cg = c.get_params(deep=False)[p]
          same = (digest(cg) == digest(v)) if not isinstance(v, Sentinel) else isinstance(cg, Sentinel)
          if not same:
            raise Violation("clone", "cls=%s,param=%s,differs" % (name, p),
                            "clone has %s=%r, original %r" % (p, cg, v))
          if [k for k in vars(c) if k.endswith("_") and not k.startswith("__")]:
            raise Violation("clone", "cls=%s,param=%s,fitted_attrs" % (name, p),
                            "clone of an unfitted estimator has fitted attributes")
          if isinstance(v, Sentinel):
            continue
          cov["not_fitted_checks"] += unfitted_queries(c, name, "cloned")
          cov["not_fitted_checks"] += unfitted_queries(est2, name, "re-parameterised")
        cov["sweep_values"] += 1
  cov["sweep_pairs"] = pairs
  stateful_clone_check(cov)
  return pairs


def stateful_clone_check(cov):
  """A *stateful* parameter value: random_state given as a RandomState instance.  Two clones of
  one unfitted estimator are separate estimators that behave identically when fitted: fitting one
  must not change what the other learns (scikit-learn's clone gives each its own copy of the
  stream)."""
  from ..data import make_data
  from ..estimators import fit_args, gen_params, default_meta, feasible
  from ..core import rel_err
  D = make_data(dict(kind="blobs", seed=4242, n=48, d=3, classes=3, cond=3, scale=0, sep=2.0, tuples=40))
  r = substream(0, "c18-stateful")
  for name in ALL:
    if "random_state" not in dict(ctor_params(name)):
      continue
    params = None
    for _ in range(20):
      cand = gen_params(name, r, default_meta(D))
      if feasible(name, cand, D):
        params = cand
        break
    if params is None:
      continue
    params = {k: v for k, v in params.items() if not isinstance(v, dict)}
    if name in ("LMNN", "NCA", "MLKR"):
      params["init"] = "random"
    elif name in ("ITML", "LSML", "SDML"):
      params["prior"] = "random"
    elif name == "MMC":
      params["init"] = "random"
    params["random_state"] = np.random.RandomState(20240)
    try:
      with warnings.catch_warnings():
        warnings.simplefilter("ignore")
        base = cls_of(name)(**params)
        c1, c2 = clone(base), clone(base)
        args = fit_args(name, D, "formed", "full")
        o = []
        for c in (c1, c2):
          try:
            c.fit(*[np.array(a, copy=True) for a in args])
            o.append(("ok", c.components_))
          except Exception as e:
            o.append(("exc:" + type(e).__name__, None))
    except Exception:
      continue
    cov["stateful_clone_checks"] += 1
    if o[0][0] != o[1][0]:
      raise Violation("clone", "cls=%s,random_state_instance,second_clone_outcome" % name,
                      "two clones of %s(random_state=RandomState) fitted on the same data: %s vs %s"
                      % (name, o[0][0], o[1][0]))
    if o[0][0] == "ok":
      La, Lb = o[0][1], o[1][1]
      if La.shape != Lb.shape or (np.isfinite(La).all() and rel_err(La.T.dot(La), Lb.T.dot(Lb)) > 1e-9):
        raise Violation("clone", "cls=%s,random_state_instance,clones_share_stream" % name,
                        "two clones of one unfitted %s(random_state=RandomState instance) learn different "
                        "metrics on the same data: fitting the first clone changed what the second one draws"
                        % name)
      cov["stateful_clone_models_equal"] += 1


class Oracle(object):
  def __init__(self):
    self.checked = 0
    self.c17 = c17.Oracle()

  def _identity(self, m, h, live_params, where):
    gp = h.est.get_params(deep=False)
    for k, v in live_params.items():
      if k in gp and gp[k] is not v:
        raise Violation("param_identity", "cls=%s,param=%s,%s" % (h.name, k, where),
                        "%s: get_params()[%r] is not the object that was passed (%r vs %r)"
                        % (where, k, type(gp[k]).__name__, type(v).__name__))
    self.checked += 1
    m.cov["identity_checks"] += 1

  def after(self, m, op, ev, live):
    kind = op["op"]
    if kind == "alias_new":
      cl, al, rp, val = live["alias"]
      if ev.get("outcome") != "ok":
        raise Violation("deprecated_alias", "cls=%s,param=%s,raises,in_history" % (cl, al),
                        "%s(%s=%r) raised %s" % (cl, al, val, ev.get("outcome")))
      if not any(issubclass(w.category, FutureWarning) for w in live["warnings"]):
        raise Violation("deprecated_alias", "cls=%s,param=%s,no_warning,in_history" % (cl, al),
                        "%s(%s=%r) did not emit FutureWarning (constructed after %d earlier operations "
                        "of this process)" % (cl, al, val, m.op_index))
      if live["alias_est"].get_params(deep=False).get(rp) != val:
        raise Violation("deprecated_alias", "cls=%s,param=%s,not_mapped,in_history" % (cl, al),
                        "%s(%s=%r): %s is %r" % (cl, al, val, rp, live["alias_est"].get_params(deep=False).get(rp)))
      m.cov["alias_checks_in_history"] += 1
      self.checked += 1
      return
    h = live.get("handle")
    if h is None or h.est is None:
      return
    if kind == "new" and ev["outcome"] == "ok":
      h.live_params = dict(live["params"])
      self._identity(m, h, h.live_params, "after_construction")
    elif kind == "set_params" and ev.get("outcome") == "ok":
      h.live_params = dict(getattr(h, "live_params", {}))
      h.live_params.update(live["params"])
      self._identity(m, h, h.live_params, "after_set_params")
    elif kind == "fit" and ev.get("outcome") != "skip":
      if hasattr(h, "live_params"):
        self._identity(m, h, h.live_params, "after_fit")
    elif kind == "clone" and ev.get("outcome") == "ok":
      self.after_clone(m, op, ev, live, h)
    elif kind == "clone" and str(ev.get("outcome", "")).startswith("exc"):
      raise Violation("clone", "cls=%s,raises,after=%s" % (h.name, _last_restart(m, op["h"])),
                      "clone(%s) raised %s: %s" % (h.name, ev["outcome"], str(live.get("exc"))[:200]))
    elif kind == "restart" and ev.get("outcome") == "ok":
      if hasattr(h, "live_params"):
        del h.live_params          # a restart legitimately creates new objects
      if live["state_before"] != live["state_after"]:
        a = c17._first_diff(live["state_before"], live["state_after"])
        raise Violation("pickle_preserves", "cls=%s,attr=%s" % (h.name, a),
                        "fitted state differs after pickle round trip (%s)" % ev.get("how"))
      if list(live["before_out"]) != list(live["after_out"]) and live.get("old_est") is not None and \
          layout_signature(live["old_est"]) != layout_signature(h.est):
        la, lb = layout_signature(live["old_est"]), layout_signature(h.est)
        k_ = [x for x in sorted(la) if la.get(x) != lb.get(x)][0]
        raise Violation("pickle_preserves", "cls=%s,outputs,layout_of=%s" % (h.name, k_),
                        "query outputs are not bit-identical after a pickle round trip: the fitted array %s is "
                        "stored in a non-contiguous layout %s and comes back as %s" % (k_, la.get(k_), lb.get(k_)))
      if not same_outputs(live["before_out"], live["after_out"], m.cov):
        self._maybe_blas(h, live)
        raise Violation("pickle_preserves", "cls=%s,outputs" % h.name,
                        "query outputs are not bit-identical after a pickle round trip")
      if "fresh_out" in live and not same_outputs(live["before_out"], live["fresh_out"], m.cov):
        raise Violation("pickle_preserves", "cls=%s,outputs_fresh_process" % h.name,
                        "query outputs differ after unpickling in a fresh interpreter")
      self.checked += 1
      m.cov["restart_checks"] += 1
    elif kind == "query" and ev.get("outcome") not in (None, "skip"):
      # after a rejected fit the object carries preprocessor_ (possibly None): indicator input is
      # then itself invalid and may legitimately be rejected with ValueError before the fitted
      # check, so only formed (always valid) query data is judged in that case
      judged = h.n_fits == 0 or ev.get("via") == "formed" or op["method"] == "get_mahalanobis_matrix"
      if h.n_ok_fits == 0 and h.n_interrupted == 0 and op["method"] != "metric_call" and judged:
        # no fit has ever returned on this object (never fitted, or every fit
        # so far was rejected): it is a not-yet-fitted estimator
        if ev["outcome"] != "exc:NotFittedError":
          raise Violation("not_fitted_error", "cls=%s,method=%s,%s" % (
                          h.name, op["method"], "history" if h.n_fits == 0 else "after_failed_fit"),
                          "%s on a handle on which no fit has succeeded yet (%d failed fit(s)) gave %s"
                          % (op["method"], h.n_fits, ev["outcome"]))
        m.cov["not_fitted_in_history"] += 1
        m.cov["not_fitted_after_failed_fit"] += int(h.n_fits > 0)
        self.checked += 1

  def _maybe_blas(self, h, live):
    pass

  def after_clone(self, m, op, ev, live, h):
    h2 = live["handle2"]
    new = h2.est
    fitted = [k for k in vars(new) if k.endswith("_") and not k.startswith("__")]
    if fitted:
      raise Violation("clone", "cls=%s,fitted_attrs" % h.name,
                      "clone has fitted attributes %s" % fitted)
    a = {k: digest(v) for k, v in h.est.get_params(deep=False).items()}
    b = {k: digest(v) for k, v in new.get_params(deep=False).items()}
    if a != b:
      k = c17._first_diff(a, b)
      raise Violation("clone", "cls=%s,param=%s,differs" % (h.name, k),
                      "clone differs from the original in parameter %s" % k)
    m.cov["clone_checks"] += 1
    self.checked += 1
    # behaves identically when fitted: fit a second clone on the original's data
    if not h.defined or h.last_fit is None or h.dirty:
      return
    rs = h.est.get_params(deep=False).get("random_state", None)
    if not (isinstance(rs, (int, np.integer)) or (rs is None and h.name in
                                                  ("Covariance", "LFDA", "RCA"))):
      return
    fop = h.last_fit["op"]
    try:
      D, via, args, kwargs = m.build_fit(h, fop)
      twin = clone(h.est)
      world.perturb_ambient(h64("clone", m.op_index) % (2**31), 1)
      with world.observed():
        twin.fit(*args, **kwargs)
    except Exception as e:
      raise Violation("clone", "cls=%s,clone_fit_raises" % h.name,
                      "the original was fitted on this data but its clone raises %s: %s"
                      % (type(e).__name__, str(e)[:200]))
    # the original may have had threshold writers since its fit: compare the metric only
    saved = (vars(h.est).get("threshold_"), vars(twin).get("threshold_"))
    La, Lb = vars(h.est).get("components_"), vars(twin).get("components_")
    if La is None or Lb is None or np.iscomplexobj(La):
      return
    from ..core import rel_err
    if La.shape != Lb.shape or (np.isfinite(La).all() and
                                rel_err(La.T.dot(La), Lb.T.dot(Lb)) > 1e-9):
      raise Violation("clone", "cls=%s,clone_fits_differently" % h.name,
                      "clone fitted on the same data gives another metric")
    m.cov["clone_fit_checks"] += 1


def _last_restart(m, hid):
  """'pickle' if the handle went through a restart earlier in the history."""
  for e in m.events:
    if e.get("op") == "restart" and e.get("h") == hid and e.get("outcome") == "ok":
      return "pickle"
  return "none"


def gen_plan(seed, tier):
  if seed == SWEEP_SEED[0]:
    return dict(kind="sweep", run_seed=seed)
  return gen_history(
      seed, tier, n_ops=(5, 14), dmax=5, pre_p=0.35, fresh_p=0.01 if tier == "thorough" else 0.006,
      weights=dict(query=22, refit=10, threshold=4, calibrate=2, handout=0, mutate=0,
                   restart=16, clone=14, ambient=3, eigsh=2, set_nondata=8, failfit=2,
                   fault=0, new=14, swap_pre=6, interrupt=3, alias=5), failfirst_p=0.25, view_p=0.3, wide_p=0.06)


SWEEP_SEED = [None]


def _init_sweep_seed():
  import os
  from ..core import run_seed
  SWEEP_SEED[0] = run_seed(int(os.environ.get("VERIF_SEED", "0") or 0), ID, 0)


_init_sweep_seed()


def run_plan(plan):
  if plan.get("kind") == "sweep":
    import collections
    cov = collections.Counter()
    try:
      n = sweep(cov)
      v = None
    except Violation as e:
      v = dict(oracle=e.oracle, sig=e.sig, detail=e.detail, op=None)
    events = [dict(op="sweep", cov=dict(cov))]
    from ..core import log_digest
    return dict(digest=log_digest(events), violation=v, cov=dict(cov), events=events,
                shape="sweep", nontrivial=True)
  orc = Oracle()
  m = Machine(plan, [orc]).run()
  shape = "|".join("%s:%s" % (e.get("op"), e.get("cls") or e.get("method") or "") for e in m.events)
  return m.result(shape="%016x" % h64(shape), nontrivial=orc.checked > 0)


def shrink_moves(plan, violation):
  if plan.get("kind") == "sweep":
    return iter(())
  return history_shrink_moves(plan, violation)
