"""C07 - constraints generated from labels respect the labels.

Simulator dimension: R - pair and chunk generation are randomized algorithms
(rejection sampling with a bounded retry loop); the property states what must
hold for whatever the draw stream delivers, and reproducibility for an integer
seed irrespective of ambient process state (global RNGs, hash seed, earlier
calls, another process)."""
import collections
import copy
import warnings

import numpy as np

from .. import world
from ..core import Violation, h64, digest, substream, np_stream, log_digest

ID = "C07"
TIERS = {"quick": dict(runs=6000, budget=40, det=12, chunk=40),
         "thorough": dict(runs=600000, budget=560, det=150, chunk=60)}
RULE = ("seeded label vectors (n<=40, 1-5 known classes, 0-50% unknown labels at arbitrary "
        "positions, singleton/unbalanced classes, negative labels other than -1) x "
        "positive_negative_pairs (n_constraints up to several times the number of distinct pairs, "
        "same_length), chunks (feasible and infeasible), generate_knntriplets (continuous and "
        "integer-grid points with duplicates, k 1..6); randomness through a recording RandomState, "
        "an integer seed or a scripted draw program (constant / short cycle / three-value support); the calls of a run share one live Constraints object in half of the runs; each call repeated immediately (same object) / after ambient perturbation (new object) / "
        "(rationed) in a fresh interpreter with another hash seed; non-trivial = >=1 call inside the "
        "property's domain checked; distinct = distinct (kind, parameters, label-layout) signatures")
REAL_VS_STUB = dict(real=["metric_learn.constraints", "sklearn NearestNeighbors", "numpy RandomState (MT19937)"],
                    stub=["recording RandomState subclass handed over as random_state",
                          "scripted RandomState (simulator-chosen integer draws)",
                          "ambient numpy/python RNG state", "fresh interpreter + PYTHONHASHSEED"])
ASSUMPTIONS = ["no draw order is prescribed: only soundness predicates and reproducibility"]


def make_labels(spec):
  rs = np_stream(spec["seed"], "labels")
  n, c = spec["n"], spec["classes"]
  layout = spec.get("layout", "balanced")
  if layout == "balanced":
    y = np.arange(n) % c
  elif layout == "unbalanced":
    p = rs.dirichlet(np.ones(c) * 0.5)
    y = rs.choice(c, size=n, p=p)
  elif layout == "singleton":     # every class a singleton except one pair
    y = np.arange(n)
    y[1] = y[0]
  else:                           # a few classes plus some singleton classes
    y = np.arange(n) % c
    k = int(rs.randint(1, max(2, n // 4)))
    y[:k] = c + np.arange(k)
  rs.shuffle(y)
  y = y.astype(int) * int(spec.get("label_stride", 1)) + int(spec.get("label_offset", 0))
  unk = spec.get("unknown", 0.0)
  if unk:
    m = rs.rand(n) < unk
    y[m] = rs.choice(spec.get("neg_values", [-1]), size=int(m.sum()))
  return y


def make_points(spec, n):
  rs = np_stream(spec["seed"], "pts")
  d = spec["d"]
  if spec.get("kind") == "grid":
    return rs.randint(0, 3, size=(n, d)).astype(float)
  P = rs.randn(n, d) * spec.get("scale", 1.0)
  if spec.get("kind") == "offset":
    # map coordinates: a common offset a million times the spacing of the points
    P = np.round(P * 100.0) / 100.0 + float(spec.get("offset", 5.4e6))
  return P


def gen_plan(seed, tier):
  r = substream(seed, "c07")
  layout = r.choice(["balanced", "balanced", "unbalanced", "unbalanced", "singleton", "few_singletons"])
  n = r.randint(4, 40)
  labels = dict(seed=r.randrange(10**6), n=n, classes=r.randint(1, 5), layout=layout,
                unknown=r.choice([0, 0, 0.1, 0.3, 0.5]),
                label_stride=r.choice([1, 1, 3]), label_offset=r.choice([0, 0, 5]),
                neg_values=r.choice([[-1], [-1], [-1, -2, -7]]))
  calls = []
  for _ in range(r.randint(1, 4)):
    k = r.choice(["pairs", "pairs", "chunks", "knn"])
    rs = dict(kind=r.choice(["int", "int", "int", "sim", "sim", "scripted"]), seed=r.randrange(2**31 - 1))
    if rs["kind"] == "scripted":
      # a draw program chosen by the simulator: degenerate but legal integer
      # streams (one value for ever, a short cycle, a support of three values);
      # soundness must hold for whatever the stream delivers
      rs["script"] = r.choice(["const", "cycle", "few"])
    if k == "pairs":
      calls.append(dict(kind="pairs", n_constraints=r.choice([1, 2, 3, 5, 10, 30, 100, 400]),
                        same_length=r.random() < 0.4, rs=rs))
    elif k == "chunks":
      calls.append(dict(kind="chunks", n_chunks=r.choice([1, 2, 3, 5, 8, 20]),
                        chunk_size=r.choice([1, 2, 2, 3, 4]), rs=rs))
    else:
      calls.append(dict(kind="knn", k_genuine=r.randint(1, 6), k_impostor=r.randint(1, 6),
                        points=dict(seed=r.randrange(10**6), d=r.randint(1, 4),
                                    kind=r.choice(["cont", "cont", "grid", "grid", "offset"]))))
  rz = substream(seed, "c07-edge-seeds")
  for c_ in calls:
    if c_.get("rs", {}).get("kind") == "int" and rz.random() < 0.12:
      c_["rs"]["seed"] = rz.choice([0, 0, 0, 1, 2**32 - 1])      # legal integer seeds at the ends of the range
  shared = substream(seed, "c07-shared").random() < 0.5
  if shared:
    rl = substream(seed, "c07-relabel")
    for c_ in calls[1:]:
      if rl.random() < 0.35:
        c_["relabel"] = rl.randrange(10**6)
  return dict(run_seed=seed, labels=labels, calls=calls,
              shared_object=shared,
              fresh=r.random() < (0.002 if tier == "quick" else 0.001))


def _rs(spec):
  if spec["kind"] == "int":
    return int(spec["seed"])
  if spec["kind"] == "scripted":
    return world.ScriptedRandomState(int(spec["seed"]), spec["script"])
  return world.SimRandomState(int(spec["seed"]))


def do_call(y, call, C=None):
  """Invoke the real helper; returns (outcome, value, warnings, draw info).
  C: a live Constraints object shared by all the calls of a plan (one object,
  many calls - its answers must not depend on what it was asked before)."""
  from metric_learn.constraints import Constraints
  if C is None:
    C = Constraints(y.copy())
  info = {}
  with world.observed() as wl:
    try:
      if call["kind"] == "pairs":
        rs = _rs(call["rs"])
        with world.DrawObserver() as obs:
          out = C.positive_negative_pairs(call["n_constraints"], same_length=call["same_length"],
                                          random_state=rs)
        src = rs if isinstance(rs, world.SimRandomState) else (obs.created[0] if obs.created else None)
        if src is not None:
          info["rounds"] = sum(1 for d in src.draws if d[0] == "randint")
          info["stream"] = src.stream_digest()
      elif call["kind"] == "chunks":
        rs = _rs(call["rs"])
        with world.DrawObserver() as obs:
          out = C.chunks(n_chunks=call["n_chunks"], chunk_size=call["chunk_size"], random_state=rs)
        src = rs if isinstance(rs, world.SimRandomState) else (obs.created[0] if obs.created else None)
        if src is not None:
          info["stream"] = src.stream_digest()
      else:
        X = make_points(call["points"], len(y))
        Xc = X.copy()
        out = C.generate_knntriplets(X, call["k_genuine"], call["k_impostor"])
        info["X_modified"] = not np.array_equal(X, Xc)
      return "ok", out, list(wl), info
    except Exception as e:
      return "exc:" + type(e).__name__, e, list(wl), info


# ------------------------------------------------------------------- oracles

def n_pos_pairs(y):
  k = y[y >= 0]
  _, cnt = np.unique(k, return_counts=True)
  return int(sum(c * (c - 1) for c in cnt))   # ordered pairs


def n_neg_pairs(y):
  k = y[y >= 0]
  _, cnt = np.unique(k, return_counts=True)
  tot = len(k)
  return int(sum(c * (tot - c) for c in cnt))


def check_pairs(y, call, outcome, out, wl, cov):
  n = len(y)
  if n_pos_pairs(y) == 0 or n_neg_pairs(y) == 0:
    cov["out_of_domain"] += 1
    return False
  if outcome != "ok":
    raise Violation("pairs_raises", "exc=%s" % outcome[4:],
                    "positive_negative_pairs(%d) raised %s: %s although positive and negative "
                    "pairs exist (labels %r)" % (call["n_constraints"], outcome, str(out)[:120], y.tolist()))
  a, b, c, d = [np.asarray(x) for x in out]
  nc = call["n_constraints"]
  for nm, arr in (("a", a), ("b", b), ("c", c), ("d", d)):
    if arr.ndim != 1 or (arr.size and (arr.dtype.kind not in "iu" or arr.min() < 0 or arr.max() >= n)):
      raise Violation("pairs_index_frame", "arr=%s" % nm,
                      "%s is not a 1-D array of indices into the caller's labels: %r" % (nm, arr))
  if len(a) != len(b) or len(c) != len(d):
    raise Violation("pairs_shape", "lengths", "lengths %d %d %d %d" % (len(a), len(b), len(c), len(d)))
  if np.any(y[a] < 0) or np.any(y[b] < 0) or np.any(y[c] < 0) or np.any(y[d] < 0):
    raise Violation("unknown_label_used", "kind=pairs", "an unlabeled point appears in a pair")
  if np.any(a == b) or np.any(y[a] != y[b]):
    raise Violation("pairs_positive_sound", "labels",
                    "positive pair with differing labels or identical points: %r %r" % (a.tolist(), b.tolist()))
  if np.any(y[c] == y[d]):
    raise Violation("pairs_negative_sound", "labels", "negative pair with equal labels")
  if len(set(zip(a.tolist(), b.tolist()))) != len(a):
    raise Violation("pairs_repeated", "kind=positive", "a positive pair is repeated")
  if len(set(zip(c.tolist(), d.tolist()))) != len(c):
    raise Violation("pairs_repeated", "kind=negative", "a negative pair is repeated")
  if len(a) > nc or len(c) > nc:
    raise Violation("pairs_count", "too_many", "%d/%d pairs for n_constraints=%d" % (len(a), len(c), nc))
  if call["same_length"] and len(a) != len(c):
    raise Violation("pairs_count", "same_length", "same_length but %d positive and %d negative" % (len(a), len(c)))
  if (len(a) < nc or len(c) < nc) and not world.has_warning(wl, UserWarning):
    raise Violation("pairs_warning", "fewer_without_warning",
                    "fewer pairs than requested (%d, %d of %d) without a warning" % (len(a), len(c), nc))
  cov["pairs_checked"] += 1
  cov["pairs_fewer_than_requested"] += int(len(a) < nc or len(c) < nc)
  check_wrap_pairs(y, (a, b, c, d), call, cov)
  return True


def check_wrap_pairs(y, abcd, call, cov):
  """wrap_pairs: positive pairs first with label +1, then negative pairs with
  label -1, each pair formed from the caller's rows in (left, right) order."""
  from metric_learn.constraints import wrap_pairs
  a, b, c, d = abcd
  n = len(y)
  X = np_stream(call["rs"]["seed"], "wrapX").randn(n, 3) + np.arange(n)[:, None]
  Xc = X.copy()
  try:
    pairs, yp = wrap_pairs(X, (a, b, c, d))
  except Exception as e:
    raise Violation("wrap_pairs", "raises", "wrap_pairs raised %s: %s" % (type(e).__name__, e))
  if not np.array_equal(X, Xc):
    raise Violation("wrap_pairs", "X_modified", "wrap_pairs modified X")
  m = len(a) + len(c)
  pairs = np.asarray(pairs)
  yp = np.asarray(yp)
  if pairs.shape != (m, 2, 3) or yp.shape != (m,):
    raise Violation("wrap_pairs", "shape", "pairs %s labels %s for %d+%d constraints"
                    % (pairs.shape, yp.shape, len(a), len(c)))
  exp = np.concatenate([np.stack([X[a], X[b]], axis=1).reshape(-1, 2, 3),
                        np.stack([X[c], X[d]], axis=1).reshape(-1, 2, 3)])
  if not np.array_equal(pairs, exp):
    raise Violation("wrap_pairs", "points", "wrap_pairs does not form (X[a], X[b]) then (X[c], X[d])")
  if not np.array_equal(yp, np.concatenate([np.ones(len(a)), -np.ones(len(c))])):
    raise Violation("wrap_pairs", "labels", "labels are not +1 for positive and -1 for negative pairs: %r"
                    % yp.tolist()[:10])
  cov["wrap_pairs_checked"] += 1


def check_chunks(y, call, outcome, out, wl, cov):
  n = len(y)
  k = y[y >= 0]
  _, cnt = np.unique(k, return_counts=True)
  cs, nch = call["chunk_size"], call["n_chunks"]
  maxc = int(sum(c // cs for c in cnt))
  if maxc == 0:
    cov["out_of_domain"] += 1
    return False
  if maxc < nch:
    if outcome != "exc:ValueError":
      raise Violation("chunks_infeasible", "outcome=%s" % outcome.split(":")[0],
                      "only %d chunks of size %d possible, %d requested, but the call gave %s"
                      % (maxc, cs, nch, outcome))
    cov["chunks_infeasible_checked"] += 1
    return True
  if outcome != "ok":
    raise Violation("chunks_raises", "exc=%s" % outcome[4:],
                    "chunks(n_chunks=%d, chunk_size=%d) raised %s: %s" % (nch, cs, outcome, str(out)[:100]))
  ch = np.asarray(out)
  if ch.shape != (n,) or ch.dtype.kind not in "iu":
    raise Violation("chunks_shape", "shape", "chunks has shape %s dtype %s" % (ch.shape, ch.dtype))
  if ch.min() < -1 or ch.max() >= nch:
    raise Violation("chunks_values", "range", "chunk ids outside {-1..%d}" % (nch - 1))
  if np.any(ch[y < 0] != -1):
    raise Violation("unknown_label_used", "kind=chunks", "an unlabeled point belongs to a chunk")
  for cid in range(nch):
    mem = np.where(ch == cid)[0]
    if len(mem) != cs:
      raise Violation("chunks_size", "size", "chunk %d has %d members, chunk_size=%d (n_chunks=%d)"
                      % (cid, len(mem), cs, nch))
    if len(set(y[mem].tolist())) != 1:
      raise Violation("chunks_class", "mixed", "chunk %d mixes classes %r" % (cid, y[mem].tolist()))
  cov["chunks_checked"] += 1
  return True


def check_knn(y, call, outcome, out, wl, cov, info):
  n = len(y)
  known = np.where(y >= 0)[0]
  labs, cnt = np.unique(y[known], return_counts=True)
  if len(labs) < 2 or cnt.min() < 2:
    cov["out_of_domain"] += 1
    return False
  kg, ki = call["k_genuine"], call["k_impostor"]
  if outcome != "ok":
    raise Violation("knn_raises", "exc=%s" % outcome[4:],
                    "generate_knntriplets raised %s: %s" % (outcome, str(out)[:120]))
  if info.get("X_modified"):
    raise Violation("knn_modifies_X", "X", "generate_knntriplets modified its X argument")
  T = np.asarray(out)
  X = make_points(call["points"], n)
  if T.ndim != 2 or T.shape[1] != 3 or T.dtype.kind not in "iu":
    raise Violation("knn_shape", "shape", "triplets shape %s dtype %s" % (T.shape, T.dtype))
  if T.size and (T.min() < 0 or T.max() >= n):
    raise Violation("knn_index_frame", "range", "triplet index outside the caller's array")
  if np.any(y[T] < 0):
    raise Violation("unknown_label_used", "kind=knn",
                    "a triplet refers to a point with unknown label (row %r of the caller's array)"
                    % T[np.where(y[T] < 0)[0][0]].tolist())
  expected = 0
  by_a = collections.defaultdict(list)
  for a, b, c in T.tolist():
    by_a[a].append((b, c))
  scale = 1e-9 * (1.0 + np.abs(X).max())
  for lab, ct in zip(labs, cnt):
    kg_e = min(kg, ct - 1)
    ki_e = min(ki, len(known) - ct)
    expected += ct * kg_e * ki_e
    same = known[y[known] == lab]
    other = known[y[known] != lab]
    for a in same:
      bc = by_a.get(int(a), [])
      if len(bc) != kg_e * ki_e:
        raise Violation("knn_count", "per_point",
                        "point %d has %d triplets, expected %d" % (a, len(bc), kg_e * ki_e))
      if len(set(bc)) != len(bc):
        raise Violation("knn_repeated", "triplet", "a triplet is repeated for point %d" % a)
      bs = sorted(set(b for b, _ in bc))
      cs_ = sorted(set(c for _, c in bc))
      if len(bs) != kg_e or len(cs_) != ki_e:
        raise Violation("knn_combinations", "not_all", "point %d: %d genuine x %d impostors but %d triplets"
                        % (a, len(bs), len(cs_), len(bc)))
      if a in bs or np.any(y[bs] != lab):
        raise Violation("knn_genuine_sound", "class", "genuine neighbour of %d not a distinct same-class point: %r (labels %r)"
                        % (a, bs, y[bs].tolist()))
      if np.any(y[cs_] == lab):
        raise Violation("knn_impostor_sound", "class", "impostor of %d has the same class" % a)
      # neighbour searches evaluate |x|^2 - 2 x.y + |y|^2 in floating point: candidates whose
      # squared distances differ by less than a few eps * max |x|^2 are ties for them
      sq_tol = 64 * np.finfo(float).eps * float((X ** 2).sum(axis=1).max())
      ds = np.sort(np.linalg.norm(X[same[same != a]] - X[a], axis=1))
      if np.any(np.linalg.norm(X[bs] - X[a], axis=1) ** 2 > (ds[kg_e - 1] + scale) ** 2 + sq_tol):
        raise Violation("knn_genuine_nearest", "distance",
                        "a genuine neighbour of %d is not among its %d nearest same-class points" % (a, kg_e))
      do = np.sort(np.linalg.norm(X[other] - X[a], axis=1))
      if np.any(np.linalg.norm(X[cs_] - X[a], axis=1) ** 2 > (do[ki_e - 1] + scale) ** 2 + sq_tol):
        raise Violation("knn_impostor_nearest", "distance",
                        "an impostor of %d is not among its %d nearest other-class points" % (a, ki_e))
  if len(T) != expected:
    raise Violation("knn_count", "total", "%d triplets, expected %d" % (len(T), expected))
  cov["knn_checked"] += 1
  cov["knn_with_unknown_before_known"] += int(np.any(y < 0) and np.where(y < 0)[0].min() < known.max())
  return True


def out_digest(outcome, out):
  if outcome != "ok":
    return outcome
  if isinstance(out, tuple):
    return digest([np.asarray(x) for x in out])
  return digest(np.asarray(out))


def fresh_eval(plan):
  y = make_labels(plan["labels"])
  res = []
  C = _shared(plan, y)
  for call in plan["calls"]:
    if C is not None and call.get("relabel"):
      _relabel(y, call["relabel"])
      C.partial_labels[...] = y
    o, v, _, _ = do_call(y, call, C)
    res.append(out_digest(o, v))
  return res


def _relabel(y, seed):
  """In-place edit of a label vector: some labels withdrawn (-1), some (re)assigned."""
  rr = np_stream(seed, "relabel")
  known = y[y >= 0].copy()
  pos = rr.permutation(len(y))[:max(1, len(y) // 5)]
  for j_ in pos:
    if y[j_] >= 0 and rr.rand() < 0.6:
      y[j_] = -1
    elif len(known):
      y[j_] = int(known[rr.randint(len(known))])


def _shared(plan, y):
  if not plan.get("shared_object"):
    return None
  from metric_learn.constraints import Constraints
  return Constraints(y.copy())


def run_plan(plan):
  cov = collections.Counter()
  events = []
  y = make_labels(plan["labels"])
  y0 = y.copy()
  violation = None
  checked = 0
  shape = []
  try:
    C = _shared(plan, y)
    cov["shared_constraints_object"] += int(C is not None)
    for i, call in enumerate(plan["calls"]):
      world.perturb_ambient(h64("c07", plan["run_seed"], i) % (2**31), 1)
      relabelled = None
      if C is not None and call.get("relabel"):
        # the caller edits the labels of the live object between two calls (labels
        # revealed or withdrawn): the constraints follow the labels as they are now
        _relabel(y, call["relabel"])
        C.partial_labels[...] = y
        y0 = y.copy()
        cov["labels_edited_on_live_object"] += 1
        relabelled = digest(y)
      outcome, out, wl, info = do_call(y, call, C)
      ev = dict(i=i, kind=call["kind"], outcome=outcome, out=out_digest(outcome, out),
                warn=world.warn_cats(wl))
      if relabelled:
        ev["relabel"] = relabelled
      if "rounds" in info:
        ev["rounds"] = info["rounds"]
        cov["retry_rounds_total"] += info["rounds"]
        cov["retry_budget_exhausted"] += int(info["rounds"] >= 20)   # 10 rounds per kind
      if "stream" in info:
        ev["stream"] = info["stream"]
      events.append(ev)
      if not np.array_equal(y, y0):
        raise Violation("labels_modified", "kind=%s" % call["kind"], "the label vector was modified")
      if call["kind"] == "pairs":
        ok = check_pairs(y, call, outcome, out, wl, cov)
      elif call["kind"] == "chunks":
        ok = check_chunks(y, call, outcome, out, wl, cov)
      else:
        ok = check_knn(y, call, outcome, out, wl, cov, info)
      if not ok:
        continue
      checked += 1
      sig = dict(call)
      sig.pop("rs", None)
      sig.pop("points", None)
      shape.append(repr(sorted(sig.items())))
      # reproducibility: immediately, and after an ambient perturbation
      if call["kind"] != "knn":
        cov["draw_program_" + (call["rs"].get("script") or call["rs"]["kind"])] += 1
      if call["kind"] == "knn" or call["rs"]["kind"] in ("int", "sim", "scripted"):
        o2, v2, _, _ = do_call(y, call, C)
        world.perturb_ambient(h64("c07b", plan["run_seed"], i) % (2**31), 4)
        o3, v3, _, _ = do_call(y, call)        # on a brand-new object
        d1 = out_digest(outcome, out)
        if out_digest(o2, v2) != d1 or out_digest(o3, v3) != d1:
          raise Violation("reproducible", "kind=%s,rs=%s" % (call["kind"], call.get("rs", {}).get("kind", "-")),
                          "same seed gave different constraints on repetition%s"
                          % ("" if out_digest(o2, v2) != d1 else " after an ambient RNG perturbation"))
        cov["reproducibility_checked"] += 1
    if plan.get("fresh") and checked:
      from .. import runner
      got = runner.fresh_eval(ID, plan)
      mine = [e["out"] for e in events if "out" in e]
      if got != mine:
        raise Violation("reproducible", "fresh_process",
                        "constraints differ in a fresh interpreter with another hash seed")
      cov["fresh_process_checked"] += 1
  except Violation as v:
    violation = dict(oracle=v.oracle, sig=v.sig, detail=v.detail, op=len(events) - 1)
  cov["calls"] += len(events)
  lay = plan["labels"]
  shape.append("%s/%s/%s" % (lay["layout"], lay["classes"], lay["unknown"]))
  return dict(digest=log_digest(events), violation=violation, cov=dict(cov), events=events,
              shape="%016x" % h64("|".join(shape)), nontrivial=checked > 0)


def shrink_moves(plan, violation):
  vi = violation.get("op")
  calls = plan["calls"]
  if vi is not None and 0 <= vi < len(calls) and len(calls) > 1:
    p = copy.deepcopy(plan)
    p["calls"] = [calls[vi]]
    p["fresh"] = plan.get("fresh") and violation.get("sig") == "fresh_process"
    yield p
  for i in range(len(calls)):
    if len(calls) > 1:
      p = copy.deepcopy(plan)
      del p["calls"][i]
      yield p
  if plan.get("shared_object"):
    p = copy.deepcopy(plan)
    p["shared_object"] = False
    yield p
  lab = plan["labels"]
  for key, lo in (("n", 3), ("classes", 1)):
    v = lab[key]
    for nv in sorted(set([lo, v // 2, v - 1])):
      if lo <= nv < v:
        p = copy.deepcopy(plan)
        p["labels"][key] = nv
        yield p
  for key, val in (("unknown", 0), ("label_stride", 1), ("label_offset", 0), ("neg_values", [-1]),
                   ("layout", "balanced")):
    if lab.get(key) != val:
      p = copy.deepcopy(plan)
      p["labels"][key] = val
      yield p
  for i, c in enumerate(calls):
    for key in ("n_constraints", "n_chunks", "chunk_size", "k_genuine", "k_impostor"):
      if key in c and c[key] > 1:
        for nv in sorted(set([1, c[key] // 2, c[key] - 1])):
          p = copy.deepcopy(plan)
          p["calls"][i][key] = nv
          yield p
    if c.get("same_length"):
      p = copy.deepcopy(plan)
      p["calls"][i]["same_length"] = False
      yield p
    if c.get("relabel"):
      p = copy.deepcopy(plan)
      del p["calls"][i]["relabel"]
      yield p
    if c.get("rs", {}).get("kind") in ("sim", "scripted"):
      p = copy.deepcopy(plan)
      p["calls"][i]["rs"]["kind"] = "int"
      yield p
    if c.get("points", {}).get("d", 1) > 1:
      p = copy.deepcopy(plan)
      p["calls"][i]["points"]["d"] = 1
      yield p
