"""C17 - fitting is deterministic, side-effect free and history independent.

Simulator dimension: H (call histories on live handles, restarts through
pickle) and R (ambient RNG state, ARPACK start vector, simulated clock).
Reference model: fresh-object replay of (params, last fit, last threshold
writer)."""
import copy
import pickle

import numpy as np

from .. import world
from ..core import (digest, state_digest, rel_err, Violation, h64, np_stream)
from ..data import make_data
from ..estimators import cls_of, tuple_size, SPEC
from ..histgen import gen_history, history_shrink_moves
from ..machine import Machine, same_outputs, layout_signature

ID = "C17"
TIERS = {"quick": dict(runs=700, budget=42, det=12),
         "thorough": dict(runs=40000, budget=560, det=120)}
RULE = ("seeded history plans over the 17 estimators (ops: new/set_params/fit/refit on "
        "other data and dimensionality/failing fit/set_threshold/calibrate/queries/"
        "get_metric/get_mahalanobis_matrix/mutation of returned matrix/clone/pickle "
        "restart/ambient RNG perturbation/ARPACK reseed or forced non-convergence/"
        "preprocessor fault/fit interrupted at a drawn metric-learn line event (crash point) and then repeated); a run is non-trivial when at least one successful fit was "
        "compared with its fresh-object reference; distinct = distinct (op kind:estimator) "
        "sequences.  The first 34 (thorough: 340) run indices of every batch ENUMERATE crash points: for "
        "each of the 17 estimators, an interruption at the first, a middle and the last line event of every "
        "function its fit passes through, each followed by a repetition of the fit")
REAL_VS_STUB = dict(real=["metric_learn (all of it)", "numpy", "scipy (ARPACK, L-BFGS-B)",
                          "scikit-learn (KMeans, PCA, LDA, NearestNeighbors, graphical lasso)",
                          "pickle"],
                    stub=["preprocessor PointStore (user-supplied reader)",
                          "ARPACK start vector / forced ArpackNoConvergence",
                          "module-level time in nca/mlkr/_util (simulated clock)",
                          "ambient numpy/python global RNG state",
                          "crash points: sys.settrace line events inside metric_learn (interruption "
                          "by SimInterrupt(KeyboardInterrupt) / MemoryError at the k-th line of a fit)"])
ASSUMPTIONS = ["equality tolerance 1e-9 relative on M, distances and thresholds (ARPACK "
               "start vectors legitimately move results by ~1e-15)",
               "RandomState instances as random_state are not used in equality oracles"]
TOL = 1e-9


def _first_diff(a, b):
  for k in sorted(set(a) | set(b)):
    if a.get(k) != b.get(k):
      return k
  return "?"


def _safe(f, *a):
  try:
    return ("ok", f(*a))
  except Exception as e:
    return ("exc:" + type(e).__name__, None)


class RefFitError(Exception):
  """The reference fit raised in the pristine process."""


def _ref_fit(payload):
  """Runs in a grandchild of the pristine server: a brand-new estimator fitted
  once, under another ambient state and ARPACK seed."""
  name, params, args, kwargs, amb, eig = payload
  import warnings
  warnings.simplefilter("ignore")
  world.EIGSH.install()
  world.EIGSH.mode, world.EIGSH.seed = "seeded", eig
  world.perturb_ambient(amb, 2)
  ref = cls_of(name)(**params)
  with world.observed():
    ref.fit(*args, **kwargs)
  return pickle.dumps(ref, protocol=4)


FRESH_REF_ONE_IN = 20


class Oracle(object):

  def __init__(self, check_reference=True, pristine_refs=True):
    self.check_reference = check_reference
    self.pristine_refs = pristine_refs
    self.refs = 0
    self.pristine_S = {}

  # -- helpers
  def _store_digest(self, m):
    bad = []
    for dk, D in m.data.items():
      if dk not in self.pristine_S:
        self.pristine_S[dk] = (digest(D.S), digest(D.yS))
      elif (digest(D.S), digest(D.yS)) != self.pristine_S[dk]:
        bad.append(dk)
    return bad

  def build_reference(self, m, h, op):
    """A brand-new estimator from pristine params, fitted once on pristine
    copies of the last fit's arguments, under another ambient state."""
    Dp = m.pristine_dataset(op["data"])                  # pristine regeneration (+ the caller's own edits)
    params = copy.deepcopy(h.pristine_params)
    if h.pre is not None:
      Sp = m.pristine_dataset(h.pre_data).S
      if isinstance(h.pre, list):
        params["preprocessor"] = Sp.tolist()
      elif h.store is not None:
        params["preprocessor"] = world.PointStore(Sp, mixed=h.store.mixed, returns=h.store.returns)
      else:
        params["preprocessor"] = Sp
    ref = cls_of(h.name)(**params)
    # rebuild args from the pristine dataset
    from ..estimators import fit_args
    via = h.last_fit["via"] if h.last_fit and h.last_fit["op"] is op else op.get("via", "formed")
    if via == "indices" and (h.pre is None or h.pre_data != op["data"]):
      via = "formed"
    args = list(fit_args(h.name, Dp, via, op.get("y_kind", "full")))
    if op.get("variant"):
      from ..machine import apply_variant_args
      args = apply_variant_args(args, op["variant"], via)
    kwargs = {}
    ex = op.get("extras", {})
    from ..estimators import make_array
    if "bounds" in ex and h.name in ("ITML", "ITML_Supervised"):
      kwargs["bounds"] = make_array(ex["bounds"]["$arr"])
    if "weights" in ex and h.name == "LSML":
      kwargs["weights"] = make_array(ex["weights"]["$arr"])
    if "calibration_params" in ex and h.name in ("ITML", "MMC", "SDML"):
      kwargs["calibration_params"] = dict(ex["calibration_params"])
    amb = h64("ref", m.plan.get("run_seed", 0), m.op_index) % (2**31)
    eig = (world.EIGSH.seed * 31 + 7) % (2**31)
    if self.pristine_refs:
      # the reference fit happens in a process in which the history under test
      # never happened (forked from the pristine server): module-level state that
      # the history may have left behind cannot reach it
      payload = (h.name, params, args, kwargs, amb, eig)
      if amb % FRESH_REF_ONE_IN == 0 and m.fresh_ref_budget > 0:
        # ... and now and then in a brand-new interpreter with another string-hash salt
        # (a model that depends on hash order, import order or anything else process-wide
        # is not a function of data, parameters and random_state)
        m.fresh_ref_budget -= 1
        st, val = world.fresh_call("mlsim.props.c17", "_ref_fit", payload)
        if st != "ok" and val[0] == "FreshInterpreterFailed":
          raise RuntimeError("reference interpreter failed: %s" % val[1])
        m.cov["reference_fits_in_fresh_interpreter"] += int(st == "ok")
      else:
        st, val = world.pristine().call(_ref_fit, payload)
      if st != "ok":
        raise RefFitError("%s: %s" % tuple(val))
      m.cov["reference_fits_in_pristine_process"] += 1
      return pickle.loads(val), Dp
    saved = (world.EIGSH.mode, world.EIGSH.seed)
    world.perturb_ambient(amb, 2)
    world.EIGSH.mode = "seeded"
    world.EIGSH.seed = eig
    try:
      with world.observed():
        ref.fit(*args, **kwargs)
    finally:
      world.EIGSH.mode, world.EIGSH.seed = saved
    return ref, Dp

  def compare_models(self, m, h, ref, D, where):
    name = h.name
    est = h.est
    a, b = fitted_attr(est, "components_"), fitted_attr(ref, "components_")
    if a is None or b is None:
      if (a is None) != (b is None):
        raise Violation("history_independence", "cls=%s,attr=components_" % name,
                        "%s: components_ present in one model only" % where)
      return
    if np.iscomplexobj(a) or np.iscomplexobj(b):
      return    # C03's business; equality of complex models is not compared here
    if a.shape != b.shape:
      raise Violation("history_independence", "cls=%s,attr=components_.shape" % name,
                      "%s: shapes %s vs fresh %s" % (where, a.shape, b.shape))
    Ma, Mb = a.T.dot(a), b.T.dot(b)
    if not (np.isfinite(Ma).all() and np.isfinite(Mb).all()):
      if not np.array_equal(np.isfinite(Ma), np.isfinite(Mb)):
        raise Violation("history_independence", "cls=%s,attr=components_" % name,
                        "%s: non-finite pattern differs from fresh replay" % where)
    else:
      e = rel_err(Ma, Mb)
      if e > TOL:
        raise Violation("history_independence", "cls=%s,attr=components_" % name,
                        "%s: ||M - M_fresh|| relative %.3g" % (where, e))
      if np.array_equal(a, b):
        m.cov["ref_bit_identical"] += 1
    # what get_mahalanobis_matrix() answers (it may be cached inside the estimator)
    ga, gb = _safe(est.get_mahalanobis_matrix), _safe(ref.get_mahalanobis_matrix)
    if ga[0] == "ok" and gb[0] == "ok" and np.isfinite(ga[1]).all() and np.isfinite(gb[1]).all():
      if np.shape(ga[1]) != np.shape(gb[1]) or rel_err(ga[1], gb[1]) > TOL:
        raise Violation("history_independence", "cls=%s,attr=get_mahalanobis_matrix" % name,
                        "%s: get_mahalanobis_matrix() differs from the fresh replay (shape %s vs %s)"
                        % (where, np.shape(ga[1]), np.shape(gb[1])))
    for attr in ("threshold_", "n_features_in_"):
      va, vb = getattr(est, attr, None), getattr(ref, attr, None)
      if (va is None) != (vb is None):
        raise Violation("history_independence", "cls=%s,attr=%s" % (name, attr),
                        "%s: %s=%r vs fresh %r" % (where, attr, va, vb))
      if va is None:
        continue
      if attr == "n_features_in_":
        if int(va) != int(vb):
          raise Violation("history_independence", "cls=%s,attr=%s" % (name, attr),
                          "%s: n_features_in_=%r but a fresh estimator fitted on the "
                          "same data reports %r" % (where, va, vb))
      else:
        if not (va == vb or abs(va - vb) <= TOL * (abs(va) + abs(vb))):
          raise Violation("history_independence", "cls=%s,attr=%s" % (name, attr),
                          "%s: threshold_=%r vs fresh %r" % (where, va, vb))
    # distances on probe pairs
    rs = np_stream(m.op_index, "c17-probe")
    pairs = D.S[rs.randint(0, D.N, size=(6, 2))]
    ra, rb = _safe(est.pair_distance, pairs), _safe(ref.pair_distance, pairs)
    if ra[0] != rb[0]:
      raise Violation("history_independence", "cls=%s,attr=pair_distance" % name,
                      "%s: outcome %s vs fresh %s" % (where, ra[0], rb[0]))
    if ra[0] == "ok" and np.isfinite(ra[1]).all() and np.isfinite(rb[1]).all():
      if rel_err(ra[1], rb[1]) > 1e-7:
        raise Violation("history_independence", "cls=%s,attr=pair_distance" % name,
                        "%s: distances differ from fresh replay (rel %.3g)"
                        % (where, rel_err(ra[1], rb[1])))

  # -- the hook
  def after(self, m, op, ev, live):
    kind = op["op"]
    h = live.get("handle")
    # (2) arrays shared as hyper-parameters / extras / preprocessor stay intact
    bad = m.check_shared_arrays()
    if bad:
      raise Violation("args_untouched", "op=%s,arg=%s" % (kind, sorted(set(bad))[0]),
                      "array passed as %s was modified by op %s on %s"
                      % (sorted(set(bad)), kind, h.name if h else "?"))
    if kind == "mutate_store" and ev.get("outcome") == "ok":
      self.pristine_S = {}          # the caller changed its data itself: take new reference digests
    bad = self._store_digest(m)
    if bad:
      raise Violation("args_untouched", "op=%s,arg=preprocessor" % kind,
                      "backing store %s modified" % bad)
    if live.get("args_modified") and not live.get("interrupted"):
      # (a call the simulator interrupted half-way is not required to have
      # restored its arguments; what it must not do is leak into later fits)
      names = live.get("arg_names")
      am = live["args_modified"]
      label = (names[am[0]] if names and isinstance(am[0], int) else am[0])
      raise Violation("args_untouched", "op=%s,arg=%s" % (kind, label),
                      "argument %s of %s(%s) was modified in place"
                      % (label, kind, op.get("method", "")))
    # (4) handed-out objects
    hb = m.handouts_intact()
    if hb:
      raise Violation("handout_independent", "obj=%s,after=%s" % (hb[0], kind),
                      "object handed out earlier changed after op %s" % kind)
    self.cross_handle(m, op, h)
    if kind == "fit" and h is not None:
      self.after_fit(m, op, ev, live, h)
    elif kind in ("query",) and ev.get("outcome") != "skip" and "state_after" in live:
      if live["state_before"] != live["state_after"]:
        a = _first_diff(live["state_before"], live["state_after"])
        raise Violation("query_pure", "method=%s,attr=%s" % (op["method"], a),
                        "%s.%s changed fitted attribute %s" % (h.name, op["method"], a))
    elif kind == "mutate_handout" and "state_after" in live:
      if live["state_before"] != live["state_after"]:
        raise Violation("handout_independent", "obj=mahalanobis_matrix,after=mutation",
                        "mutating the returned matrix changed the estimator")
    elif kind == "restart" and ev.get("outcome") == "ok":
      if live["state_before"] != live["state_after"]:
        a = _first_diff(live["state_before"], live["state_after"])
        raise Violation("restart_transparent", "cls=%s,attr=%s" % (h.name, a),
                        "fitted state differs after pickle round trip (%s)" % ev.get("how"))
      if list(live["before_out"]) != list(live["after_out"]) and live.get("old_est") is not None and \
          layout_signature(live["old_est"]) != layout_signature(h.est):
        la, lb = layout_signature(live["old_est"]), layout_signature(h.est)
        k_ = [x for x in sorted(la) if la.get(x) != lb.get(x)][0]
        raise Violation("restart_transparent", "cls=%s,outputs,layout_of=%s" % (h.name, k_),
                        "query outputs are not bit-identical after a pickle round trip: the fitted array %s is "
                        "stored in a non-contiguous layout %s and comes back as %s" % (k_, la.get(k_), lb.get(k_)))
      if not same_outputs(live["before_out"], live["after_out"], m.cov):
        raise Violation("restart_transparent", "cls=%s,outputs" % h.name,
                        "query outputs differ after pickle round trip")
      if "fresh_out" in live and not same_outputs(live["before_out"], live["fresh_out"], m.cov):
        raise Violation("restart_transparent", "cls=%s,outputs_fresh_process" % h.name,
                        "query outputs differ in a fresh interpreter")
    elif kind == "set_params" and "pre" not in op and h is not None and h.defined and \
        ev.get("outcome") == "ok" and getattr(self, "snap", {}).get(op["h"]) is not None:
      # hyper-parameters take effect at the next fit: until then the fitted model
      # (attributes and answers) is what it was
      prev = self.snap_before_op
      cur = self._snapshot(m, h)
      if prev is not None and set(prev) == set(cur) and prev != cur:
        a = _first_diff(prev, cur)
        raise Violation("set_params_changes_model", "cls=%s,attr=%s" % (h.name, a),
                        "set_params(%s) changed %s of the fitted %s without a refit"
                        % (sorted(op.get("params", {})), a, h.name))
      m.cov["set_params_model_unchanged_checked"] += 1
    elif kind in ("set_threshold", "calibrate") and ev.get("outcome") == "ok" \
        and h is not None and h.defined and self.check_reference:
      self.after_threshold(m, op, ev, live, h)
    # hyper-parameters unmodified by the op (digest of what get_params returns)
    if h is not None and h.est is not None and live.get("gp_before") and \
        kind in ("fit", "query", "calibrate", "set_threshold", "handout", "restart"):
      try:
        gp = {k: digest(v) for k, v in h.est.get_params(deep=False).items()}
      except Exception:
        gp = None
      if gp is not None and gp != live["gp_before"]:
        k = _first_diff(gp, live["gp_before"])
        raise Violation("args_untouched", "op=%s,param=%s" % (kind, k),
                        "hyper-parameter %s of %s changed during %s" % (k, h.name, kind))

  def cross_handle(self, m, op, h):
    """An operation on one estimator must not change any *other* live
    estimator: neither its fitted attributes nor what it answers (state shared
    through a common array, a class attribute or a module-level cache would)."""
    if not hasattr(self, "snap"):
      self.snap = {}
    touched = set(x for x in (op.get("h"), op.get("h2")) if x is not None)
    self.snap_before_op = self.snap.get(op.get("h"))
    if op["op"] == "mutate_handout":
      touched = set(m.handles)          # the mutated matrix belongs to some handle
    if op["op"] == "mutate_store":
      # estimators reading through the edited store are undefined until refitted;
      # the others must not notice (their fitted attributes are still compared)
      touched = set(hid for hid, hh in m.handles.items() if not hh.defined)
    for hid, hh in m.handles.items():
      if hh.est is None:
        continue
      cur = self._snapshot(m, hh)
      prev = self.snap.get(hid)
      if prev is not None and ("<pair_distance>" in prev) != ("<pair_distance>" in cur):
        # the output probe is not taken while a store fault is armed: compare what both have
        prev = {k_: v_ for k_, v_ in prev.items() if k_ != "<pair_distance>"}
        cur_cmp = {k_: v_ for k_, v_ in cur.items() if k_ != "<pair_distance>"}
      else:
        cur_cmp = cur
      if hid not in touched and prev is not None and prev != cur_cmp:
        a = _first_diff(prev, cur_cmp)
        raise Violation("cross_handle", "op=%s,attr=%s" % (op["op"], a),
                        "%s (handle %s) changed (%s) although the operation %s was performed on %s"
                        % (hh.name, hid, a, op["op"], "handle %s" % op.get("h") if "h" in op else "no handle"))
      self.snap[hid] = cur
    m.cov["cross_handle_checks"] += max(0, len(m.handles) - len(touched))

  def _snapshot(self, m, hh):
    st = dict(state_digest(hh.est))
    if hh.defined and hh.last_fit is not None and not (hh.store is not None and hh.store.armed):
      if not hasattr(self, "probe_pairs"):
        self.probe_pairs = {}
      pk = (hh.hid, hh.n_fits)
      if pk not in self.probe_pairs:        # fixed points: the caller may edit its store later
        D = m.dataset(hh.last_fit["op"]["data"])
        rs = np_stream(hh.hid, "cross-probe")
        self.probe_pairs[pk] = np.array(D.S[rs.randint(0, D.N, size=(3, 2))], copy=True)
      pairs = self.probe_pairs[pk]
      r = _safe(hh.est.pair_distance, pairs)
      st["<pair_distance>"] = r[0] if r[0] != "ok" else digest(r[1])
    return st

  def after_fit(self, m, op, ev, live, h):
    if op.get("malformed"):
      return
    rs = h.pristine_params.get("random_state", None)
    # deterministic by contract: integer seed, or nothing random happened at
    # all (no recorded draw and the process-global RNG was not consumed)
    seeded = isinstance(rs, (int, np.integer)) or (
        rs is None and live.get("draws", 0) == 0 and not live.get("ambient_touched"))
    if not seeded or not self.check_reference:
      return
    if ev["outcome"] == "ok":
      try:
        ref, Dp = self.build_reference(m, h, op)
      except Exception as e:
        raise Violation("history_independence", "cls=%s,fresh_fit_raises" % h.name,
                        "fit succeeded on a handle with history %d fit(s) but a fresh "
                        "estimator raises %s: %s" % (h.n_fits, type(e).__name__, str(e)[:200]))
      self.refs += 1
      m.cov["reference_fits"] += 1
      h.ref_blob = pickle.dumps(ref)
      self.compare_models(m, h, ref, Dp, "after fit #%d" % h.n_fits)
    elif live.get("fault_fired"):
      return        # the simulator made the preprocessor fail inside this fit
    elif h.n_fits > 1 or len(m.handles) > 1:
      # a well-formed fit raised on an object with history: does a fresh one?
      try:
        ref, Dp = self.build_reference(m, h, op)
      except Exception as e:
        m.cov["fit_raises_fresh_too"] += 1
        return
      raise Violation("history_independence", "cls=%s,fit_raises_only_with_history" % h.name,
                      "fit raised %s on a handle with history but succeeds on a fresh "
                      "estimator: %s" % (ev["outcome"], ev.get("msg")))

  def after_threshold(self, m, op, ev, live, h):
    blob = getattr(h, "ref_blob", None)
    if blob is None or not hasattr(h.est, "threshold_"):
      return
    ref = pickle.loads(blob)
    try:
      with world.observed():
        if op["op"] == "set_threshold":
          ref.set_threshold(live["value"])
        else:
          D, pairs, y, via = m.calib_data(h, live.get("op_eff", op))
          if via == "indices":
            pairs = D.S[pairs]
          ref.calibrate_threshold(pairs, y, **live["cp"])
    except Exception as e:
      raise Violation("history_independence", "cls=%s,threshold_writer_raises_fresh" % h.name,
                      "%s succeeded on the live handle but raises on the fresh replay: %s"
                      % (op["op"], e))
    va, vb = h.est.threshold_, ref.threshold_
    m.cov["threshold_refs"] += 1
    if not (va == vb or abs(va - vb) <= TOL * (abs(va) + abs(vb))):
      raise Violation("history_independence", "cls=%s,attr=threshold_,writer=%s"
                      % (h.name, op["op"]),
                      "threshold_=%r after %s but fresh replay of (fit, this writer) gives %r"
                      % (va, op["op"], vb))


def fitted_attr(est, name):
  return vars(est).get(name, None)


# ---------------------------------------------------- crash-point enumeration

ENUM_PER_TIER = {"quick": 34, "thorough": 340}
_ENUM = {}


def _enum_index(seed, tier):
  import os
  from ..core import run_seed
  key = (os.environ.get("VERIF_SEED", "0"), tier)
  if key not in _ENUM:
    vs = int(os.environ.get("VERIF_SEED", "0") or 0)
    _ENUM[key] = {run_seed(vs, ID, i): i for i in range(ENUM_PER_TIER.get(tier, 34))}
  return _ENUM[key].get(seed)


def gen_crash_enum(seed, idx):
  """The first run indices of every batch enumerate crash points instead of
  drawing them: one estimator (all 17 in turn), one dataset, and an
  interruption at the first, a middle and the last line event of *every
  function* the fit passes through, each followed by a repetition of the fit."""
  from ..estimators import ALL
  from ..histgen import gen_dataset, params_for, _data
  from ..core import substream
  r = substream(seed, "crash-enum")
  name = ALL[idx % len(ALL)]
  p, desc = None, None
  for _ in range(30):
    desc = gen_dataset(r, dmax=4)
    desc["n"] = min(desc["n"], 30)
    desc["tuples"] = min(desc.get("tuples", 12), 16)
    p = params_for(name, r, _data(desc))
    if p is not None:
      break
  if p is None:
    p = {}
  if idx < len(ALL):
    # first pass over the estimators: the documented default structure (generated
    # basis, 'auto' init, identity prior); later passes: options as drawn
    for k_ in ("basis", "n_basis", "init", "prior"):
      p.pop(k_, None)
    if "n_components" in p and name not in ("LFDA",):
      p["n_components"] = None
  for k_ in ("max_iter",):
    if isinstance(p.get(k_), int) and not name.startswith("SCML"):
      p[k_] = min(p[k_], 5)
  return dict(kind="crash_enum", run_seed=seed, cls=name, datasets={"D0": desc}, params=p,
              exc=r.choice(["KeyboardInterrupt", "MemoryError"]), ops=[],
              world=dict(jumpy_clock=False, fresh_restarts=0))


def _enum_points(plan):
  """Runs in a pristine process: one complete fit under the counting tracer;
  returns the enumerated crash points (first / middle / last line event of every
  function the fit passes through) and the number of line events."""
  base = [dict(op="new", h=0, cls=plan["cls"], params=plan["params"])]
  probe = Machine(dict(plan, ops=list(base)), []).run()
  h = probe.handles.get(0)
  if h is None or h.est is None:
    return [], 0
  D, via, args, kwargs = probe.build_fit(h, dict(op="fit", h=0, data="D0", via="formed"))
  with world.observed(), world.LineInterrupter() as li0:
    try:
      h.est.fit(*args, **kwargs)
    except (Exception, world.LineInterrupter.StopCount):
      pass
  points = []
  for lst in li0.by_func.values():
    for k_ in (lst[0], lst[len(lst) // 2], lst[-1]):
      if k_ not in points:
        points.append(int(k_))
  return points, int(li0.n)


def _derive_enum_ops(plan):
  """new; then for every enumerated crash point: (new seed;) interrupted fit;
  fit.  No fit has succeeded on the object - or in the process - before the
  first interruption, and every pair uses a random_state of its own, so that
  state keyed on (data, seed) is never complete when the interruption comes."""
  base = [dict(op="new", h=0, cls=plan["cls"], params=plan["params"])]
  try:
    st, val = world.pristine().call(_enum_points, plan)
  except Exception:
    st, val = "exc", None
  if st != "ok":
    return base + [dict(op="fit", h=0, data="D0", via="formed")], 0
  points, n = val
  if plan.get("only") is not None:
    points = [k_ for k_ in points if k_ == plan["only"]]
  seeded = "random_state" in plan["params"]
  ops = list(base)
  for j_, k_ in enumerate(points):
    if seeded:
      ops.append(dict(op="set_params", h=0, nondata=True,
                      params={"random_state": int(h64("enum-seed", plan["run_seed"], k_) % 10**6)}))
    ops.append(dict(op="fit", h=0, data="D0", via="formed", interrupt=dict(at=int(k_), n=int(n), exc=plan["exc"])))
    ops.append(dict(op="fit", h=0, data="D0", via="formed"))
  return ops, len(points)


def gen_plan(seed, tier):
  idx = _enum_index(seed, tier)
  if idx is not None:
    return gen_crash_enum(seed, idx)
  # unknown=True: refits of supervised learners alternate between the full
  # and the partially unknown label vector on the same points
  return gen_history(seed, tier, fresh_p=0.004 if tier == "thorough" else 0.003,
                     weights=dict(fault=3, interrupt=6, mutate_store=4), unknown=True, wide_p=0.05, crash_sweep_p=0.08, buffer_p=0.35, view_p=0.3, int_dtype_p=0.08, one_class_p=0.06)


def run_plan(plan):
  orc = Oracle()
  if plan.get("kind") == "crash_enum":
    ops, npts = _derive_enum_ops(plan)
    full = dict(plan, ops=ops)
    m = Machine(full, [orc]).run()
    m.cov["crash_points_enumerated"] += npts
    m.cov["crash_enum_runs"] += 1
    if m.violation is not None and m.violation.get("op") is not None and m.violation["op"] < len(ops):
      # remember which crash point it was: the shrinker keeps only that one
      for o_ in reversed(ops[:m.violation["op"] + 1]):
        if o_.get("interrupt"):
          m.violation["enum_at"] = o_["interrupt"]["at"]
          break
    res = m.result(shape="%016x" % h64("enum|%s" % plan["cls"]), nontrivial=orc.refs > 0)
    return res
  m = Machine(plan, [orc]).run()
  shape = "|".join("%s:%s" % (e.get("op"), e.get("cls") or e.get("method") or "")
                   for e in m.events)
  return m.result(shape="%016x" % h64(shape), nontrivial=orc.refs > 0)


def shrink_moves(plan, violation):
  if plan.get("kind") == "crash_enum":
    if plan.get("only") is None and violation.get("enum_at") is not None:
      p = copy.deepcopy(plan)
      p["only"] = violation["enum_at"]
      yield p
    for k_ in sorted(plan.get("params", {})):
      p = copy.deepcopy(plan)
      del p["params"][k_]
      yield p
    return
  for p in history_shrink_moves(plan, violation):
    yield p
