"""C05 - indices + preprocessor are interchangeable with formed points/tuples;
formed data never consults the preprocessor; a failing preprocessor surfaces as
PreprocessorError.

Simulator dimension: F (the preprocessor is a user-supplied reader called a
variable number of times per public method; the simulator fails it at a chosen
call *inside* an op) and H (the twin pair is driven through a history of fits,
queries and calibrations)."""
import collections
import copy
import pickle

import numpy as np

from .. import world
from ..core import (Violation, h64, digest, state_digest, rel_err, substream, np_stream,
                    log_digest)
from ..data import make_data
from ..estimators import (ALL, SPEC, cls_of, Resolver, tuple_size, PAIRS)
from ..histgen import gen_dataset, params_for, gen_cp, _data

ID = "C05"
TIERS = {"quick": dict(runs=900, budget=40, det=12),
         "thorough": dict(runs=60000, budget=560, det=120)}
RULE = ("seeded twin histories: estimator A (preprocessor = callable store | ndarray | nested list, "
        "driven with index arrays: repeats, arbitrary order, every integer dtype, tuple sizes 2/3/4) "
        "and twin B (no preprocessor, driven with the formed arrays) through fit / transform / "
        "pair_distance / pair_score / score_pairs / predict / decision_function / score / "
        "calibrate_threshold, formed data handed to A, and store faults armed at a drawn call index "
        "inside the next op (call count learned from a fault-free dry run on a pickled copy); "
        "non-trivial = >=1 op compared between the twins and, in fault runs, >=1 fault fired; "
        "distinct = distinct (estimator, preprocessor kind, op/method/fault) sequences")
REAL_VS_STUB = dict(real=["metric_learn", "numpy", "scipy", "scikit-learn"],
                    stub=["preprocessor PointStore (fault injection point)", "ambient RNG state"])
ASSUMPTIONS = ["twin outputs compared at relative tolerance 1e-9 (bit-identical rate reported)",
               "both twins raising the same exception type on ill-posed training data counts as "
               "interchangeable"]
TOL = 1e-9
INT_DTYPES = ["int8", "int16", "int32", "int64", "uint8", "uint16", "uint32", "uint64", "intp"]
EXCS = ["ValueError", "KeyError", "IndexError", "RuntimeError", "MemoryError", "StopIteration",
        "UserStoreError", "OSError", "ZeroDivisionError", "PreprocessorError"]
QUERIES = ["transform", "pair_distance", "pair_score", "score_pairs", "predict",
           "decision_function", "score"]


def gen_plan(seed, tier):
  r = substream(seed, "c05")
  name = r.choice(ALL)
  for _ in range(30):
    desc = gen_dataset(r, dmax=5)
    desc["extra"] = r.choice([0, 3, 8])
    desc["n"] = min(desc["n"], 60)
    D = _data(desc)
    p = params_for(name, r, D)
    if p is not None:
      break
    name = r.choice(ALL)
  int_store = None
  if r.random() < 0.15:
    # integer-valued points kept in an integer dtype (e.g. uint8 image data)
    desc = dict(desc, kind="grid", grid=r.choice([4, 9]))
    int_store = r.choice(["uint8", "int8", "int16", "uint16", "int32"])
    one_d = r.random() < 0.35
    if one_d:
      # a single integer feature: formed (n, 1) integer points look most like
      # indicators - and still must never be sent through the preprocessor
      desc["d"] = 1
      desc["grid"] = 12
    D = _data(desc)
    p = params_for(name, r, D) or ({} if one_d else p)
    if one_d:
      p = {k: v for k, v in p.items() if k not in ("n_components", "init", "prior", "basis", "n_basis", "k")}
  if int_store is None and desc.get("kind", "blobs") == "blobs" and r.random() < 0.2:
    # a table in which some rows hold whole numbers: a callable store over it
    # answers with an integer array when only such rows are asked for
    desc = dict(desc, int_rows=r.choice([0.3, 0.6]))
  fault_run = r.random() < 0.45
  pre = "store" if fault_run else r.choice(["store", "ndarray", "list"])
  rr = substream(seed, "c05-store-returns")
  if pre == "store" and rr.random() < 0.3:
    desc = dict(desc, store_returns=rr.choice(["list", "tuple"]))
  ops = []
  n_ops = r.randint(3, 9)
  ts = tuple_size(name)

  def idx_spec():
    sp = dict(seed=r.randrange(10**6), dtype=r.choice(INT_DTYPES + ["list"]),
              repeats=r.random() < 0.5, m=r.randint(1, 9))
    if r.random() < 0.35:
      sp["pattern"] = r.choice(["sorted", "sorted_gap", "sorted_gap", "const", "arange", "reversed"])
    if r.random() < 0.25:
      sp["layout"] = "F"        # column-major 2-D indicator array (e.g. np.array([left, right]).T)
    if r.random() < 0.2:
      sp["negative"] = True     # indicators counted from the end, as in X[indices]
    return sp

  def maybe_fault():
    if fault_run and r.random() < 0.6:
      return dict(frac=r.random(), exc=r.choice(EXCS))
    return None

  ops.append(dict(op="fit", idx=dict(seed=r.randrange(10**6), dtype=r.choice(INT_DTYPES),
                                     repeats=r.random() < 0.15, order=r.random() < 0.7,
                                     layout=r.choice([None, None, "F"])),
                  form="indices", fault=maybe_fault() if r.random() < 0.4 else None))
  while len(ops) < n_ops:
    k = r.random()
    form = "formed" if r.random() < 0.2 else "indices"
    if k < 0.05 and int_store is None and len(ops) >= 1:
      # the caller edits its own container in place (same ndarray / list / store
      # object, other content) and fits again: the new content must be used
      ops.append(dict(op="mutate_pre", seed=r.randrange(10**6), how=r.choice(["rows", "all"])))
      ops.append(dict(op="fit", idx=dict(seed=r.randrange(10**6), dtype=r.choice(INT_DTYPES),
                                         repeats=False, order=r.random() < 0.7),
                      form="indices", fault=None))
    elif k < 0.07 and pre != "store":
      # replace the preprocessor by another array and refit: the new one must be used
      ops.append(dict(op="swap_pre", seed=r.randrange(10**6), kind=r.choice(["ndarray", "list"])))
      ops.append(dict(op="fit", idx=dict(seed=r.randrange(10**6), dtype=r.choice(INT_DTYPES),
                                         repeats=False, order=r.random() < 0.7),
                      form="indices", fault=None))
    elif k < 0.2:
      ops.append(dict(op="fit", idx=dict(seed=r.randrange(10**6), dtype=r.choice(INT_DTYPES),
                                         repeats=r.random() < 0.15, order=r.random() < 0.7,
                                         gap=r.random() < 0.2),
                      form=form, fault=maybe_fault()))
    elif k < 0.3 and name in PAIRS:
      ops.append(dict(op="calibrate", idx=idx_spec(), cp=gen_cp(r), form=form,
                      fault=maybe_fault()))
    else:
      meths = ["transform", "pair_distance", "pair_score", "score_pairs"]
      if ts:
        meths += ["predict", "decision_function", "score"]
      ops.append(dict(op="query", method=r.choice(meths), idx=idx_spec(), form=form,
                      fault=maybe_fault()))
    if ops[-1].get("form") == "indices" and not ops[-1].get("fault") and r.random() < 0.08:
      # an indicator that does not exist in the store (beyond either end): reading it fails
      # inside the preprocessor - array-like, nested list or callable alike
      ops[-1]["oob"] = dict(pos=r.random(), beyond=r.randint(0, 3), neg=r.random() < 0.3)
  plan = dict(run_seed=seed, dataset=desc, cls=name, params=p, pre=pre, ops=ops, int_store=int_store)
  rw = substream(seed, "c05-otherwidth")
  if rw.random() < 0.3:
    plan["final_other_width"] = rw.choice([1, -1])
  rt = substream(seed, "c05-tail")
  if pre != "store" and int_store is None and rt.random() < 0.25 and \
      not any(o["op"] in ("swap_pre", "mutate_pre") for o in ops):
    # a preallocated buffer whose unfilled tail holds NaN: rows no indicator ever selects
    plan["nan_tail"] = rt.randint(1, 4)
    for o in ops:
      if isinstance(o.get("idx"), dict):
        o["idx"].pop("negative", None)
  return plan


# ------------------------------------------------------------------ execution

def _cast(idx, dtype, layout=None):
  if dtype == "list":
    return idx.tolist()
  out = idx.astype(dtype)
  if layout == "F" and out.ndim == 2:
    out = np.asfortranarray(out)
  return out


def _fit_indices(name, D, spec):
  """Index-form fit arguments and the matching formed arguments."""
  kind = SPEC[name]["kind"]
  rs = np_stream(spec["seed"], "c05fit")
  if kind in ("X", "Xy", "Xyreg", "Xchunks"):
    idx = D.pidx.copy()
    if spec.get("order"):
      idx = idx[rs.permutation(len(idx))]
    if spec.get("repeats"):
      extra = idx[rs.randint(0, len(idx), size=max(1, len(idx) // 5))]
      idx = np.concatenate([idx, extra])
    if spec.get("gap") and len(idx) >= 4:
      # sorted, one repeated neighbour, span == length (looks like a contiguous range)
      idx = np.sort(idx)
      k_ = int(rs.randint(1, len(idx) - 1))
      idx[k_] = idx[k_ - 1]
    ind = _cast(idx, spec["dtype"])
    formed = D.S[idx]
    if kind == "X":
      return (ind,), (formed,)
    if kind == "Xy":
      y = D.yS[idx]
      return (ind, y.copy()), (formed, y.copy())
    if kind == "Xyreg":
      yr = D.S[idx].dot(np.ones(D.d)) * 0.1 + np.sin(np.arange(len(idx)))
      return (ind, yr.copy()), (formed, yr.copy())
    # chunks: re-index D.chunks (defined on pidx order)
    pos = {int(v): i for i, v in enumerate(D.pidx)}
    ch = np.array([D.chunks[pos[int(v)]] for v in idx])
    return (ind, ch.copy()), (formed, ch.copy())
  T = {"pairs": D.pairs_idx, "triplets": D.triplets_idx, "quads": D.quads_idx}[kind]
  o = np.arange(len(T))
  if spec.get("order"):
    o = rs.permutation(len(T))
  if spec.get("repeats"):
    o = np.concatenate([o, o[rs.randint(0, len(o), size=max(1, len(o) // 5))]])
  T = T[o]
  ind = _cast(T, spec["dtype"], spec.get("layout"))
  formed = D.S[T]
  if kind == "pairs":
    y = D.pairs_y[o]
    return (ind, y.copy()), (formed, y.copy())
  return (ind,), (formed,)


def _query_indices(name, method, D, spec):
  rs = np_stream(spec["seed"], "c05q")
  m = spec["m"]
  ts = tuple_size(name)
  if method == "transform":
    t = 1
  elif method in ("pair_distance", "pair_score", "score_pairs"):
    t = 2
  else:
    t = ts
  idx = rs.randint(0, D.N, size=(m, t))
  if spec.get("repeats") and m >= 3:
    idx[1] = idx[0]
    idx[2, :] = idx[2, 0]
  pat = spec.get("pattern")
  if pat == "sorted":
    idx = np.sort(idx, axis=0)
  elif pat == "reversed":
    idx = np.sort(idx, axis=0)[::-1].copy()
  elif pat == "const":
    idx[:] = idx[0]
  elif pat in ("arange", "sorted_gap") and m <= D.N:
    for j in range(t):
      a0 = int(rs.randint(0, D.N - m + 1))
      idx[:, j] = np.arange(a0, a0 + m)
      if pat == "sorted_gap" and m >= 3:
        k_ = int(rs.randint(1, m - 1))
        idx[k_, j] = idx[k_ - 1, j]     # sorted, a repeat, span == length
  if t == 1:
    idx = idx[:, 0]
  if spec.get("negative") and not str(spec["dtype"]).startswith("u") and D.N <= 120:
    # X[indices] semantics: a negative indicator counts from the end
    neg = rs.rand(*idx.shape) < 0.4
    idx = np.where(neg, idx - D.N, idx)
  ind = _cast(idx, spec["dtype"], spec.get("layout"))
  formed = D.S[idx]
  if method == "score" and ts == 2:
    y = np.where(D.yS[idx[:, 0]] == D.yS[idx[:, 1]], 1, -1)
    if len(set(y.tolist())) < 2:
      y[0], y[-1] = 1, -1
    return (ind, y), (formed, y.copy())
  if method == "calibrate":
    y = np.where(D.yS[idx[:, 0]] == D.yS[idx[:, 1]], 1, -1)
    if len(set(y.tolist())) < 2:
      y[0], y[-1] = 1, -1
    return (ind, y), (formed, y.copy())
  return (ind,), (formed,)


def _with_oob(args, spec, N):
  """Replace one indicator of the first argument by one that does not exist."""
  a0 = args[0]
  if isinstance(a0, list):
    arr = np.array(a0, dtype=np.int64)
  else:
    arr = np.array(a0, copy=True)
  if arr.size == 0 or arr.dtype.kind not in "iu":
    return None
  bad = N + int(spec["beyond"])
  if spec.get("neg") and arr.dtype.kind == "i":
    bad = -N - 1 - int(spec["beyond"])
  info = np.iinfo(arr.dtype)
  if not (info.min <= bad <= info.max):
    return None
  k = min(int(spec["pos"] * arr.size), arr.size - 1)
  arr.flat[k] = bad
  new0 = arr.tolist() if isinstance(a0, list) else arr
  return (new0,) + tuple(args[1:])


def _invoke(est, method, args, kwargs=None):
  try:
    with world.observed():
      out = getattr(est, method)(*args, **(kwargs or {}))
    return "ok", out, None
  except Exception as e:
    return "exc:" + type(e).__name__, None, e


def _same(a, b):
  """(equal within tolerance, bit identical)."""
  if isinstance(a, np.ndarray) or isinstance(b, np.ndarray):
    a, b = np.asarray(a), np.asarray(b)
    if a.shape != b.shape:
      return False, False
    if a.dtype.kind in "fc":
      fa, fb = np.isfinite(a), np.isfinite(b)
      if not np.array_equal(fa, fb):
        return False, False
      bit = np.array_equal(a, b, equal_nan=True)
      if bit:
        return True, True
      return rel_err(np.where(fa, a, 0), np.where(fb, b, 0)) <= TOL, False
    return np.array_equal(a, b), np.array_equal(a, b)
  if isinstance(a, float) or isinstance(b, float):
    ok = (a == b) or abs(a - b) <= TOL * (abs(a) + abs(b)) or (a != a and b != b)
    return ok, a == b
  return True, True


def run_plan(plan):
  cov = collections.Counter()
  events = []
  D = make_data(plan["dataset"])
  if plan.get("int_store"):
    # the formed data must be what the preprocessor yields: a nested list of
    # Python ints becomes int64, an ndarray / store keeps its integer dtype
    as_python_ints = plan["pre"] == "list" or (plan["pre"] == "store" and plan["dataset"].get("store_returns"))
    D.S = D.S.astype("int64" if as_python_ints else plan["int_store"])
    cov["integer_store"] += 1
  name = plan["cls"]
  R = Resolver()
  pa = R.params(plan["params"])
  pb = {k: copy.deepcopy(v) for k, v in pa.items()}
  store = None
  if plan["pre"] == "store":
    store = world.PointStore(D.S.copy(), mixed=bool(plan["dataset"].get("int_rows")),
                             returns=plan["dataset"].get("store_returns"))
    pre = store
  elif plan["pre"] == "ndarray":
    pre = D.S.copy()
  else:
    pre = D.S.tolist()
  n_total = D.N
  if plan.get("nan_tail") and store is None:
    tail = np.full((int(plan["nan_tail"]), D.d), np.nan)
    full = np.vstack([np.asarray(D.S, dtype=float), tail])
    pre = full if plan["pre"] == "ndarray" else full.tolist()
    n_total = len(full)
    cov["preprocessor_with_nan_tail"] += 1
  A = cls_of(name)(preprocessor=pre, **pa)
  B = cls_of(name)(**pb)
  a_defined = False
  compared = 0
  fired_total = 0
  violation = None
  shape = [name, plan["pre"], str(plan.get("int_store"))]

  def calls():
    return len(store.calls) if store is not None else None

  try:
    for i, op in enumerate(plan["ops"]):
      kind = op["op"]
      if kind == "swap_pre":
        if store is not None:
          continue
        rsw = np_stream(op["seed"], "swap")
        S2 = D.S * rsw.uniform(0.5, 2.0, size=D.d) + rsw.randn(D.d)
        D.S = np.ascontiguousarray(S2)
        newpre = D.S.copy() if op["kind"] == "ndarray" else D.S.tolist()
        with world.observed():
          A.set_params(preprocessor=newpre)
        pre = newpre          # the container the estimator now reads through
        a_defined = False
        events.append(dict(i=i, op="swap_pre", kind=op["kind"]))
        cov["preprocessor_swaps"] += 1
        shape.append("swap")
        continue
      if kind == "mutate_pre":
        rsw = np_stream(op["seed"], "mutate")
        S2 = np.array(D.S, dtype=float, copy=True)
        rows = np.arange(len(S2)) if op["how"] == "all" else np.where(rsw.rand(len(S2)) < 0.5)[0]
        S2[rows] = S2[rows] * rsw.uniform(0.5, 2.0, size=D.d) + rsw.randn(D.d) * (np.abs(S2).std() + 1e-300)
        D.S = np.ascontiguousarray(S2)
        if store is not None:
          store.X[...] = D.S                 # the table behind the callable
        elif isinstance(pre, np.ndarray):
          pre[...] = D.S                     # the very array given as preprocessor
        else:
          for i_ in range(len(pre)):         # rows of the nested list reassigned in place
            pre[i_] = D.S[i_].tolist()
        a_defined = False                    # what A answers until its next fit is not asserted
        events.append(dict(i=i, op="mutate_pre", how=op["how"]))
        cov["preprocessor_mutated_in_place"] += 1
        shape.append("mutate")
        continue
      ev = dict(i=i, op=kind, form=op["form"])
      if kind == "fit":
        ai, bf = _fit_indices(name, D, op["idx"])
        method, kwargs = "fit", {}
      elif kind == "calibrate":
        ai, bf = _query_indices(name, "calibrate", D, op["idx"])
        method, kwargs = "calibrate_threshold", dict(op["cp"])
      else:
        method, kwargs = op["method"], {}
        if not hasattr(A, method):
          continue
        ai, bf = _query_indices(name, method, D, op["idx"])
      ev["method"] = method
      oob = op.get("oob") if op["form"] == "indices" else None
      if oob and kind != "fit" and not a_defined:
        oob = None      # not fitted (the last fit failed): NotFittedError comes first, legitimately
      if oob:
        ai = _with_oob(ai, oob, n_total)
        if ai is None:
          oob = None
      a_args = ai if op["form"] == "indices" else tuple(copy.deepcopy(x) for x in bf)
      # ---- fault arming (dry run on a pickled copy learns the call count)
      fault = op.get("fault") if (store is not None and op["form"] == "indices") else None
      armed_at = None
      if fault is not None:
        dry = pickle.loads(pickle.dumps(A))
        dstore = dry.preprocessor
        c0 = len(dstore.calls)
        _invoke(dry, method, copy.deepcopy(a_args), kwargs)
        ncalls = len(dstore.calls) - c0
        if ncalls > 0:
          armed_at = int(fault["frac"] * ncalls)
          store.arm(armed_at, fault["exc"])
          cov["faults_armed"] += 1
          cov["fault_at_call_%d_of_%d" % (armed_at, ncalls)] += 1
      world.perturb_ambient(h64("c05", plan["run_seed"], i) % (2**31), 1)
      c_before = calls()
      state_before = state_digest(A)
      oa, va, ea = _invoke(A, method, a_args, kwargs)
      n_store_calls = (calls() - c_before) if store is not None else None
      fired = bool(store is not None and fault is not None and store.fired and
                   store.fired[-1][0] >= c_before)
      if store is not None:
        store.disarm()
      world.perturb_ambient(h64("c05b", plan["run_seed"], i) % (2**31), 2)
      if oob:
        # the read fails inside the preprocessor: PreprocessorError, nothing else
        from metric_learn.exceptions import PreprocessorError
        cov["out_of_range_indicator"] += 1
        cov["out_of_range_in_" + method] += 1
        shape.append("%s/oob" % method)
        ev.update(a=oa, oob=True)
        events.append(ev)
        if oa == "ok" or not isinstance(ea, PreprocessorError):
          raise Violation("fault_surfaces", "method=%s,out_of_range,%s" % (
                          method, "returned_value" if oa == "ok" else "leaked=" + type(ea).__name__),
                          "%s.%s with an indicator outside the store (pre=%s) gave %s %s instead of "
                          "PreprocessorError" % (name, method, plan["pre"], oa, str(ea)[:120]))
        if kind in ("fit", "calibrate"):
          a_defined = False
        elif state_digest(A) != state_before:
          raise Violation("fault_surfaces", "method=%s,out_of_range,state_changed" % method,
                          "a failed %s changed the fitted state" % method)
        fired_total += 1
        continue
      if fired:
        ob, vb, eb = "not-run", None, None     # the twin must not advance past a failed op
      else:
        ob, vb, eb = _invoke(B, method, tuple(copy.deepcopy(x) for x in bf), kwargs)
      ev.update(a=oa, b=ob, store_calls=n_store_calls, fired=fired)
      shape.append("%s/%s%s" % (method, op["form"][0], "/F" if fired else ""))
      if fired:
        fired_total += 1
        cov["faults_fired"] += 1
        cov["fault_fired_in_" + method] += 1
        cov["fault_exc_" + fault["exc"]] += 1
        from metric_learn.exceptions import PreprocessorError
        if oa == "ok":
          raise Violation("fault_surfaces", "method=%s,returned_value" % method,
                          "%s.%s returned although the preprocessor raised %s at call %d"
                          % (name, method, fault["exc"], armed_at))
        if not isinstance(ea, PreprocessorError):
          raise Violation("fault_surfaces", "method=%s,leaked=%s" % (method, type(ea).__name__),
                          "%s.%s: preprocessor raised %s at call %d of the op but the caller saw "
                          "%s: %s" % (name, method, fault["exc"], armed_at, type(ea).__name__,
                                      str(ea)[:160]))
        if kind in ("fit", "calibrate"):
          a_defined = False     # nothing is asserted until the next successful fit
        events.append(ev)
        continue
      # ---- formed data must not consult the store
      if op["form"] == "formed" and store is not None and n_store_calls:
        raise Violation("formed_not_consulted", "method=%s" % method,
                        "%s.%s was given formed data but called the preprocessor %d time(s)"
                        % (name, method, n_store_calls))
      if op["form"] == "formed" and store is not None:
        cov["formed_to_A_checked"] += 1
      # ---- interchangeability
      if oa != ob:
        if kind != "fit" and not a_defined:
          events.append(ev)
          continue        # A is in an undefined state after a failed fit
        raise Violation("interchangeable", "method=%s,outcome" % method,
                        "%s.%s: with %s+preprocessor(%s) -> %s, with formed data -> %s (%s | %s)"
                        % (name, method, op["form"], plan["pre"], oa, ob,
                           str(ea)[:120], str(eb)[:120]))
      if kind == "fit":
        a_defined = (oa == "ok")
      if oa == "ok" and (a_defined or kind == "fit"):
        if kind in ("fit", "calibrate"):
          La, Lb = vars(A).get("components_"), vars(B).get("components_")
          if La is not None and Lb is not None and not np.iscomplexobj(La):
            ok, bit = _same(La.T.dot(La), Lb.T.dot(Lb)) if La.shape == Lb.shape else (False, False)
            if not ok:
              raise Violation("interchangeable", "method=%s,model" % method,
                              "%s: fitted metric differs between index and formed input" % name)
            _, bit = _same(La, Lb)
            cov["models_compared"] += 1
            cov["models_bit_identical"] += int(bit)
          ta, tb = vars(A).get("threshold_"), vars(B).get("threshold_")
          if (ta is None) != (tb is None) or (ta is not None and not _same(float(ta), float(tb))[0]):
            raise Violation("interchangeable", "method=%s,threshold_" % method,
                            "%s: threshold_ %r vs %r" % (name, ta, tb))
        else:
          ok, bit = _same(va, vb)
          if not ok:
            raise Violation("interchangeable", "method=%s,output" % method,
                            "%s.%s outputs differ: %r vs %r" % (name, method,
                                                                np.asarray(va).ravel()[:5].tolist(),
                                                                np.asarray(vb).ravel()[:5].tolist()))
          cov["outputs_compared"] += 1
          cov["outputs_bit_identical"] += int(bit)
          ev["out"] = digest(va)
        compared += 1
        cov["compared_" + method] += 1
        cov["idx_dtype_" + str(op["idx"].get("dtype"))] += 1
      if kind == "fit" and oa == "ok":
        ev["state"] = state_digest(A)
      events.append(ev)
    if plan.get("final_other_width") and not plan.get("int_store"):
      # last act: both estimators are fitted on FORMED data of another width than the
      # preprocessor's rows - formed data never consults (or is measured against) the preprocessor
      i = len(plan["ops"])
      S_ = np.asarray(D.S, dtype=float)
      D2 = copy.copy(D)
      if plan["final_other_width"] < 0 and S_.shape[1] >= 3:
        D2.S = np.ascontiguousarray(S_[:, :-1])
      else:
        D2.S = np.hstack([S_, S_[:, :1] * 0.5 + S_[:, -1:] ** 2])
      D2.d = D2.S.shape[1]
      _, bf = _fit_indices(name, D2, dict(seed=plan["run_seed"] % 10**6, dtype="int64", order=True))
      c_before = calls()
      oa, va, ea = _invoke(A, "fit", tuple(copy.deepcopy(x) for x in bf), {})
      if store is not None and calls() != c_before:
        raise Violation("formed_not_consulted", "method=fit,other_width",
                        "%s.fit on formed data called the preprocessor" % name)
      ob, vb, eb = _invoke(B, "fit", tuple(copy.deepcopy(x) for x in bf), {})
      events.append(dict(i=i, op="fit_other_width", a=oa, b=ob))
      cov["formed_fit_of_other_width"] += 1
      if oa != ob:
        raise Violation("interchangeable", "method=fit,outcome,formed_other_width",
                        "%s.fit on formed data with %d features: with a preprocessor (%s, %d columns) -> %s, "
                        "without -> %s (%s | %s)" % (name, D2.d, plan["pre"], S_.shape[1], oa, ob,
                                                     str(ea)[:120], str(eb)[:120]))
      if oa == "ok":
        La, Lb = vars(A).get("components_"), vars(B).get("components_")
        if La is not None and Lb is not None and not np.iscomplexobj(La):
          ok, _ = _same(La.T.dot(La), Lb.T.dot(Lb)) if La.shape == Lb.shape else (False, False)
          if not ok:
            raise Violation("interchangeable", "method=fit,model,formed_other_width",
                            "%s: fitted metric on formed data depends on the presence of a preprocessor" % name)
        compared += 1
  except Violation as v:
    violation = dict(oracle=v.oracle, sig="cls=%s,%s" % (name, v.sig), detail=v.detail, op=i)
    events.append(dict(i=i, violation=v.sig))
  cov["ops"] += len(events)
  fault_run = any(o.get("fault") for o in plan["ops"])
  nontrivial = compared > 0 and (fired_total > 0 or not fault_run)
  return dict(digest=log_digest(events), violation=violation, cov=dict(cov), events=events,
              shape="%016x" % h64("|".join(shape)), nontrivial=nontrivial)


def shrink_moves(plan, violation):
  ops = plan["ops"]
  vi = violation.get("op")
  if vi is not None and vi + 1 < len(ops):
    p = copy.deepcopy(plan)
    p["ops"] = ops[:vi + 1]
    yield p
  for i in range(len(ops) - 1, -1, -1):
    if len(ops) > 1:
      p = copy.deepcopy(plan)
      del p["ops"][i]
      yield p
  for i, o in enumerate(ops):
    if "idx" not in o:
      continue
    if o.get("fault"):
      p = copy.deepcopy(plan)
      p["ops"][i]["fault"] = None
      yield p
    for k in ("repeats", "order", "gap", "pattern"):
      if o["idx"].get(k):
        p = copy.deepcopy(plan)
        p["ops"][i]["idx"][k] = False
        yield p
    if o["idx"].get("dtype") != "int64":
      p = copy.deepcopy(plan)
      p["ops"][i]["idx"]["dtype"] = "int64"
      yield p
  for k in sorted(plan["params"]):
    p = copy.deepcopy(plan)
    del p["params"][k]
    yield p
  if plan["pre"] != "ndarray":
    p = copy.deepcopy(plan)
    p["pre"] = "ndarray"
    yield p
  d = plan["dataset"]
  for key, lo in (("n", 4 * d["d"]), ("tuples", 8), ("extra", 0)):
    if d.get(key, 0) > lo:
      p = copy.deepcopy(plan)
      p["dataset"][key] = max(lo, d[key] // 2)
      yield p
