"""C13 - SDML minimises the documented sparse LogDet objective; when the solver
cannot produce a finite SPD matrix, fit raises RuntimeError.

Simulator dimension: F - SDML delegates to a third-party graphical-lasso solver
that is known to fail; the simulator replaces the module-level solver by a stub
that fails in the ways a real solver fails (exceptions, NaN/inf/indefinite
results) at the moment fit calls it; and R - prior='random' is known to the
oracle only through seed reproducibility under a perturbed ambient RNG."""
import collections
import copy
import warnings

import numpy as np

from .. import world
from ..core import Violation, Inconclusive, h64, digest, substream, log_digest
from ..data import make_data
from ..estimators import make_array
from ..histgen import gen_dataset, _data
from ..refmodels import glasso

ID = "C13"
TIERS = {"quick": dict(runs=8000, budget=40, det=12, chunk=32),
         "thorough": dict(runs=200000, budget=560, det=120, chunk=32)}
INCONCLUSIVE_CEILING = 0.25
RULE = ("seeded runs of SDML (optionally an object with an earlier fit): (a) fault-free with a "
        "certified positive-definite graphical-lasso input: M must be finite SPD and no positive "
        "definite witness from an independent proximal-gradient solver may have a clearly lower "
        "objective; (b) stub solver injected at the module-level seam raising FloatingPointError/"
        "LinAlgError/ValueError or returning NaN/inf/indefinite/slightly-negative matrices: fit must "
        "raise RuntimeError; (c) natural failures (indefinite input): RuntimeError or a finite SPD M, "
        "nothing else; non-trivial = a witness comparison was made or an injected fault fired; "
        "distinct = distinct (configuration, prior, parameters, dimension) signatures")
REAL_VS_STUB = dict(real=["metric_learn.sdml", "scikit-learn graphical lasso (configurations a, c)",
                          "sklearn make_spd_matrix"],
                    stub=["metric_learn.sdml.graphical_lasso (configuration b)", "ambient RNG state"])
ASSUMPTIONS = ["non-optimality is only asserted with a witness: f(witness) < f(M) - 1e-3*(1+|f|)",
               "a ConvergenceWarning of the real solver or a RuntimeError on a certified input makes "
               "the optimality clause inconclusive ('within solver tolerance' / the third clause)"]
GAP_TOL = 1e-3


def prior_matrix(prior, pairs, seed):
  """M0 recomputed by the oracle from the documented meaning of `prior`."""
  d = pairs.shape[2]
  if isinstance(prior, np.ndarray):
    return prior
  if prior == "identity":
    return np.eye(d)
  if prior == "covariance":
    X = np.unique(np.vstack(pairs), axis=0)
    C = np.atleast_2d(np.cov(X, rowvar=False))
    w = np.linalg.eigvalsh((C + C.T) / 2)
    if w.min() <= 1e3 * d * np.finfo(float).eps * abs(w).max():
      # a (numerically) singular covariance has no inverse: the library refuses such a prior
      # with LinAlgError, as documented for learners that need a strictly PD prior
      raise np.linalg.LinAlgError("singular covariance")
    return np.linalg.inv(C)
  if prior == "random":
    from sklearn.datasets import make_spd_matrix
    return make_spd_matrix(d, random_state=seed)
  raise ValueError(prior)


def gl_input(prior, pairs, y, eta, seed):
  M0 = prior_matrix(prior, pairs, seed)
  v = pairs[:, 0] - pairs[:, 1]
  return np.linalg.inv(M0) + eta * (v.T * y).dot(v), M0


def gen_plan(seed, tier):
  r = substream(seed, "c13")
  cfgk = r.random()
  config = "fault_free" if cfgk < 0.5 else ("stub" if cfgk < 0.85 else "natural")
  desc = gen_dataset(r, dmax=6)
  desc["tuples"] = r.randint(8, 30)
  if r.random() < 0.3:
    desc["kind"] = "grid"
  elif r.random() < 0.3:
    desc["offset"] = r.choice([1e5, 1e7, 3e7])     # large common offset relative to the spread
  prior = r.choice(["identity", "identity", "covariance", "random", "array"])
  if desc["kind"] == "grid" and prior == "covariance":
    prior = "identity"
  pseed = r.randrange(10**6)
  params = dict(sparsity_param=r.choice([1e-3, 0.01, 0.05, 0.2, 0.5, 1.0]),
                random_state=pseed,
                prior={"$arr": dict(kind="spd", seed=r.randrange(10**6), d=desc["d"],
                                    ridge=r.choice([0.2, 1.0]))} if prior == "array" else prior)
  r2 = substream(seed, "c13-scale")
  u = r2.random()
  if u < 0.12 and desc["kind"] != "grid" and config != "natural":
    # units are arbitrary: tiny (huge) features, so that the graphical-lasso input
    # has entries of the order of 1e-10 .. 1e-12 (1e14 .. 1e18) under a covariance-like prior
    gs = r2.choice([1e-5, 1e-6, 1e7, 1e9])
    desc["global_scale"] = gs
    desc.pop("offset", None)
    if r2.random() < 0.6:
      params["prior"] = "covariance"
    else:
      params["prior"] = {"$arr": dict(kind="spd", seed=r2.randrange(10**6), d=desc["d"],
                                      ridge=1.0, scale=1.0 / gs ** 2)}
  elif u < 0.24 and config != "natural":
    # an ill-conditioned (but strictly positive definite) array prior
    params["prior"] = {"$arr": dict(kind="spd", seed=r2.randrange(10**6), d=desc["d"],
                                    cond=r2.choice([1e6, 1e9, 1e10, 1e11, 1e12]))}
  hist_scale = r2.choice([1.0, 1.0, 3.0, 5.0, 20.0, 0.2])
  r4 = substream(seed, "c13-extra")
  with_pre = r4.random() < 0.2          # the estimator also has a preprocessor; formed pairs are passed all the same
  signed_zeros = params.get("prior") == "covariance" and desc["kind"] != "grid" and r4.random() < 0.4
  r5 = substream(seed, "c13-hist-sparsity")
  # the earlier life of the object may have used another penalty (set_params in between): half of the histories
  hist_sparsity = r5.choice([1e-3, 0.01, 0.05, 0.2, 0.5, 1.0]) if r5.random() < 0.5 else None
  plan = dict(run_seed=seed, dataset=desc, params=params, config=config, history_scale=hist_scale,
              history_sparsity=hist_sparsity, with_pre=with_pre, signed_zeros=signed_zeros,
              frac=r.choice([0.1, 0.3, 0.5]) if config != "natural" else r.choice([3.0, 10.0, 100.0]),
              ambient=r.randrange(10**6), history=r.random() < 0.25)
  if config == "stub":
    plan["fault"] = r.choice(world.GLASSO_FAULTS)
  return plan


def certified_eta(prior, pairs, y, seed, frac):
  """balance_param = frac * (largest eta that keeps lambda_min(P) >= 1/2 lambda_min(M0^-1))
  when frac < 1; frac > 1 drives P indefinite (natural failure configuration)."""
  M0 = prior_matrix(prior, pairs, seed)
  Pinv = np.linalg.inv(M0)
  lam0 = np.linalg.eigvalsh((Pinv + Pinv.T) / 2).min()
  v = pairs[:, 0] - pairs[:, 1]
  Lm = (v.T * y).dot(v)
  neg = -np.linalg.eigvalsh(Lm).min()
  if neg <= 1e-12:
    return 0.5 * frac if frac < 1 else None
  return frac * 0.5 * lam0 / neg


def run_plan(plan):
  import metric_learn as ml
  cov = collections.Counter()
  events = []
  inconclusive = []
  violation = None
  nontrivial = False
  D = make_data(plan["dataset"])
  pairs = D.S[D.pairs_idx]
  y = D.pairs_y
  if plan.get("signed_zeros"):
    # coarse measurements: many exact zeros, and the same point carries +0.0 in one
    # pair and -0.0 in another (equal numbers, other bytes)
    sc_ = float(np.abs(D.S).std()) or 1.0
    pairs = np.round(pairs / sc_ * 2.0) / 2.0 * sc_
    rz = np.random.RandomState(h64("c13-zeros", plan["run_seed"]) & 0xFFFFFFFF)
    flip = (pairs == 0) & (rz.rand(*pairs.shape) < 0.5)
    pairs[flip] = -0.0
    cov["signed_zero_pairs"] += 1
    if len(np.unique(pairs.reshape(-1, D.d), axis=0)) <= D.d + 1:
      plan = dict(plan, signed_zeros=False)
      pairs = D.S[D.pairs_idx]
  p = dict(plan["params"])
  prior = p["prior"]
  if isinstance(prior, dict):
    prior = make_array(prior["$arr"])
    p["prior"] = prior
  pname = "array" if isinstance(prior, np.ndarray) else prior
  if isinstance(plan["params"]["prior"], dict) and plan["params"]["prior"]["$arr"].get("cond"):
    pname = "array_illcond"
    cov["illcond_array_prior"] += 1
  if plan["dataset"].get("global_scale"):
    cov["tiny_scale_data"] += 1
  seed = p["random_state"]
  shape = [plan["config"], plan.get("fault", "-"), pname, str(D.d), str(p["sparsity_param"]),
           str(plan["frac"]), "hist" if plan["history"] else "fresh"]
  try:
    if len(set(y.tolist())) < 2 or len(y) < 4:
      raise Inconclusive("degenerate_pairs")
    try:
      eta = certified_eta(prior, pairs, y, seed, plan["frac"])
    except np.linalg.LinAlgError:
      raise Inconclusive("singular_covariance_prior")
    if eta is None:
      raise Inconclusive("no_negative_direction_for_natural_failure")
    p["balance_param"] = float(eta)
    if plan.get("with_pre"):
      p["preprocessor"] = np.array(D.S, copy=True)
      cov["estimator_has_preprocessor"] += 1
    est = ml.SDML(**p)
    if plan["history"]:
      try:
        with world.observed():
          D2 = make_data(dict(plan["dataset"], seed=plan["dataset"]["seed"] + 1))
          # the earlier life of the object: other pairs, possibly in other units
          hs = float(plan.get("history_scale", 1.0))
          if plan.get("history_sparsity") is not None:
            est.set_params(sparsity_param=plan["history_sparsity"])
            cov["history_with_other_sparsity"] += 1
          ml.SDML.fit(est, D2.S[D2.pairs_idx] * hs, D2.pairs_y)
      except Exception:
        pass
      est.set_params(sparsity_param=p["sparsity_param"])
      cov["with_history"] += 1
    world.perturb_ambient(plan["ambient"], 3)
    pairs_dg = digest(pairs)
    with world.GlassoSeam() as gs, world.observed() as wl:
      gs.mode = plan.get("fault") if plan["config"] == "stub" else None
      try:
        ret = est.fit(pairs, y)
        outcome, exc = "ok", None
      except Exception as e:
        outcome, exc, ret = "exc:" + type(e).__name__, e, None
    fired = gs.fired
    if gs.missing:
      cov["seam_missing"] += 1
    ev = dict(config=plan["config"], fault=plan.get("fault"), outcome=outcome,
              solver_calls=len(gs.calls), fired=fired, warn=world.warn_cats(wl))
    events.append(ev)
    world.perturb_ambient(plan["ambient"] * 3 + 1, 7)
    # the graphical-lasso input recomputed from the inputs (not taken from the seam)
    P, M0 = gl_input(prior, pairs, y, eta, seed)
    pd_input = glasso.is_pd(P)
    if plan["config"] == "stub":
      if gs.missing or not fired:
        raise Inconclusive("stub_not_reached" if not gs.missing else "seam_missing")
      cov["glasso_stub_fired"] += 1
      cov["fault_" + plan["fault"]] += 1
      nontrivial = True
      if outcome != "exc:RuntimeError":
        raise Violation("failure_clause", "fault=%s,outcome=%s" % (plan["fault"], outcome.replace("exc:", "")),
                        "the solver failed (%s) but fit gave %s instead of RuntimeError%s"
                        % (plan["fault"], outcome, "" if exc is None else ": " + str(exc)[:120]))
      return _done(events, violation, cov, inconclusive, shape, nontrivial)
    # real solver from here on
    if outcome != "ok":
      if outcome == "exc:RuntimeError":
        cov["natural_runtime_error"] += 1
        cov["natural_runtime_error_pd_input"] += int(pd_input)
        if plan["config"] == "natural":
          nontrivial = True
        else:
          if plan["history"]:
            # was it the input, or the object's earlier life?  A brand-new
            # estimator with the same parameters decides.
            fresh = ml.SDML(**p)
            try:
              with world.observed():
                fresh.fit(pairs.copy(), y.copy())
              fresh_ok = True
            except Exception:
              fresh_ok = False
            cov["runtime_error_with_history_rechecked"] += 1
            if fresh_ok:
              raise Violation("failure_clause", "runtime_error_only_with_history",
                              "fit raised RuntimeError on an object with an earlier fit, but a new SDML with "
                              "the same parameters solves the same (certified positive definite) problem")
          inconclusive.append("runtime_error_on_certified_input")
        return _done(events, violation, cov, inconclusive, shape, nontrivial)
      raise Violation("failure_clause", "config=%s,leaked=%s" % (plan["config"], outcome[4:]),
                      "fit raised %s (not RuntimeError): %s" % (outcome, str(exc)[:200]))
    M = est.get_mahalanobis_matrix()
    ev["M"] = digest(np.round(M / (np.abs(M).max() + 1e-300), 8))
    if ret is not est:
      raise Violation("returns_self", "-", "fit did not return the estimator")
    if not np.isfinite(M).all():
      raise Violation("spd", "config=%s,nonfinite" % plan["config"], "M contains NaN/inf")
    if np.abs(M - M.T).max() > 1e-9 * max(1.0, np.abs(M).max()):
      raise Violation("spd", "config=%s,asymmetric" % plan["config"], "M is not symmetric")
    if not glasso.is_pd(M):
      w = np.linalg.eigvalsh((M + M.T) / 2)
      if w.min() > -1e-12 * w.max():
        # numerically singular M: legitimate only if the problem itself is that
        # ill-conditioned - a well-conditioned positive definite witness says it is not
        if pd_input and plan["config"] == "fault_free":
          Tw, fw, _ = glasso.solve(P, p["sparsity_param"], T0=None)
          ww = np.linalg.eigvalsh((Tw + Tw.T) / 2)
          if np.isfinite(fw) and ww.min() > 0 and ww.max() / ww.min() < 1e6:
            raise Violation("spd", "config=%s,singular_on_well_conditioned_problem" % plan["config"],
                            "M is singular (lambda_min/lambda_max=%g) although the problem has a positive "
                            "definite solution with condition number %.3g" % (w.min() / max(w.max(), 1e-300),
                                                                              ww.max() / ww.min()))
        inconclusive.append("M_numerically_singular")
        return _done(events, violation, cov, inconclusive, shape, nontrivial)
      raise Violation("spd", "config=%s,not_pd" % plan["config"],
                      "M is not positive definite (lambda_min=%g)" % w.min())
    cov["spd_checked"] += 1
    if plan["config"] == "natural":
      nontrivial = True
      cov["natural_returned_spd"] += 1
      cov["natural_input_indefinite"] += int(not pd_input)
      if not pd_input and not (world.has_warning(wl, Warning, "did not converge") or
                               world.has_warning(wl, Warning, "not converge")):
        # the graphical-lasso input is indefinite, the solver did not report non-convergence and
        # fit handed back a finite SPD matrix as the learned M: then the solver *could* produce
        # one, i.e. M solves the documented problem (the L1 term can make it bounded) - a matrix
        # that a positive definite witness beats by a wide margin is not what the solver produced
        # for this problem.  (Wide margin: 1e-2 relative; converged results sit below 1e-4.)
        lam = p["sparsity_param"]
        fM = glasso.objective(P, M, lam)
        try:
          T1, f1, it1 = glasso.solve(P, lam, T0=M)
        except Exception:
          f1 = float("nan")
        if np.isfinite(f1) and np.isfinite(fM):
          cov["natural_indefinite_quiet_returns_judged"] += 1
          if fM - f1 > 1e-2 * (1.0 + abs(f1)):
            raise Violation("failure_clause", "indefinite_input_returned_non_minimiser",
                            "the graphical-lasso input is indefinite, no non-convergence was reported and fit "
                            "returned an SPD matrix with f(M)=%.6g, but a positive definite witness reaches %.6g: "
                            "the returned matrix is not the solver's answer to the documented problem" % (fM, f1))
      return _done(events, violation, cov, inconclusive, shape, nontrivial)
    if not pd_input:
      raise Inconclusive("input_not_pd_despite_certificate")
    if world.has_warning(wl, Warning, "onverg") or any("ConvergenceWarning" == c for c in ev["warn"]):
      inconclusive.append("solver_convergence_warning")
      return _done(events, violation, cov, inconclusive, shape, nontrivial)
    lam = p["sparsity_param"]
    fM = glasso.objective(P, M, lam)
    T1, f1, it1 = glasso.solve(P, lam, T0=M)
    T2, f2, it2 = glasso.solve(P, lam, T0=None)
    fref = min(f1, f2)
    cov["witness_comparisons"] += 1
    cov["witness_from_M_start"] += int(f1 <= f2)
    nontrivial = True
    gap = fM - fref
    ev["gap_bucket"] = "neg" if gap < 0 else ("<1e-6" if gap < 1e-6 else ("<1e-5" if gap < 1e-5 else (
        "<1e-4" if gap < 1e-4 else ("<5e-4" if gap < 5e-4 else "big"))))
    cov["gap_" + ev["gap_bucket"]] += 1
    rg = gap / (1.0 + abs(fref))
    cov["relgap_" + ("neg" if rg < 0 else "<1e-7" if rg < 1e-7 else "<1e-6" if rg < 1e-6 else
                     "<1e-5" if rg < 1e-5 else "<1e-4" if rg < 1e-4 else "<1e-3" if rg < 1e-3 else "big")] += 1
    if gap > GAP_TOL * (1.0 + abs(fref)):
      # "within solver tolerance": scikit-learn's graphical lasso stops when its duality-gap
      # estimate drops below tol=1e-4; with an inexact inner lasso that estimate can be met after
      # a single sweep while the objective is still 1e-3 relative above the optimum (seen once in
      # ~40 000 comparisons, VERIF_SEED=1001).  A returned M at which the solver's own stopping
      # rule holds is a point the documented solver legitimately stops at.
      try:
        from sklearn.covariance._graph_lasso import _dual_gap
        dgap = abs(float(_dual_gap(P, M, lam)))
      except Exception:
        dgap = float("inf")
      if dgap < 1e-4:
        cov["gap_large_but_solver_stopping_rule_met"] += 1
        inconclusive.append("solver_stopping_rule_met_early")
        return _done(events, violation, cov, inconclusive, shape, nontrivial)
      raise Violation("not_optimal", "prior=%s" % pname,
                      "f(M)=%.8g but a positive definite witness reaches %.8g (gap %.3g; d=%d, "
                      "sparsity=%g, balance=%g, prior=%s)" % (fM, fref, gap, D.d, lam, eta, pname))
    if digest(pairs) != pairs_dg:
      raise Violation("args_modified", "-", "fit modified the training pairs")
  except Violation as v:
    violation = dict(oracle=v.oracle, sig=v.sig, detail=v.detail, op=None)
  except Inconclusive as ic:
    inconclusive.append(ic.reason)
  return _done(events, violation, cov, inconclusive, shape, nontrivial)


def _done(events, violation, cov, inconclusive, shape, nontrivial):
  return dict(digest=log_digest(events), violation=violation, cov=dict(cov), events=events,
              inconclusive=sorted(set(inconclusive)), shape="%016x" % h64("|".join(shape)),
              nontrivial=nontrivial)


def shrink_moves(plan, violation):
  if plan.get("history"):
    p = copy.deepcopy(plan)
    p["history"] = False
    yield p
  if isinstance(plan["params"]["prior"], dict) or plan["params"]["prior"] != "identity":
    p = copy.deepcopy(plan)
    p["params"]["prior"] = "identity"
    yield p
  d = plan["dataset"]
  for key, lo in (("tuples", 8), ("d", 2), ("n", 8), ("classes", 2)):
    if d.get(key, 0) > lo:
      p = copy.deepcopy(plan)
      p["dataset"][key] = max(lo, d[key] // 2 if key in ("tuples", "n") else d[key] - 1)
      if isinstance(p["params"]["prior"], dict):
        p["params"]["prior"]["$arr"]["d"] = p["dataset"]["d"]
      yield p
  for key in ("scale", "perm", "extra"):
    if d.get(key):
      p = copy.deepcopy(plan)
      p["dataset"][key] = 0
      yield p
