"""C15 - SCML learns a non-negative combination of its basis by the documented
stochastic dual-averaging scheme, for the given random_state.

Simulator dimension: R - the mini-batch sequence *is* the schedule.  The
public random_state parameter accepts a RandomState instance, so the simulator
records the stream an integer seed produces and scripts arbitrary legal streams
(the same triplet in every batch, a short cycle, a tiny support, one triplet
repeated inside each batch).  The reference model is fed the recorded draws."""
import collections
import copy

import numpy as np

from .. import world
from ..core import Violation, Inconclusive, h64, digest, substream, log_digest, rel_err
from ..data import make_data
from ..estimators import make_array
from ..histgen import gen_dataset
from ..refmodels import scml as ref
from .c08 import BasisObserver

ID = "C15"
TIERS = {"quick": dict(runs=1500, budget=40, det=12, chunk=10),
         "thorough": dict(runs=120000, budget=560, det=120, chunk=20)}
INCONCLUSIVE_CEILING = 0.15
RULE = ("seeded runs of SCML / SCML_Supervised with basis in {array, triplet_diffs, lda}, n_basis, "
        "beta, gamma, batch_size, max_iter >= output_iter >= 1 (also output_iter not dividing "
        "max_iter), random_state = integer seed | recording MT-backed RandomState | scripted "
        "RandomState (const / cycle / few / rowconst batch programs); the recorded batch draws are "
        "fed to a reference dual-averaging model; non-trivial = M compared with the reference and "
        ">=1 active basis element; distinct = distinct (estimator, basis kind, draw program, "
        "parameters) signatures")
REAL_VS_STUB = dict(real=["metric_learn.scml", "metric_learn.constraints (k-NN triplets)",
                          "scikit-learn KMeans / LDA for the 'lda' basis"],
                    stub=["random_state instance: recording MT19937 RandomState or scripted draw program",
                          "observer on the components builder (reads generated bases)"])
ASSUMPTIONS = ["runs in which a branch of the scheme (slack > 0, objective < best) is decided by a "
               "margin below 1e-9 relative are inconclusive",
               "M compared at relative tolerance 1e-7"]
TOL = 1e-7


def gen_plan(seed, tier):
  r = substream(seed, "c15")
  cls = r.choice(["SCML", "SCML", "SCML_Supervised"])
  desc = gen_dataset(r, dmax=5, big=True)
  desc["tuples"] = r.randint(max(10, 2 * desc["d"]), 45)
  d = desc["d"]
  small = substream(seed, "c15-small").random() < 0.15
  if small:
    # few triplets (but >= n_features): mini-batches, drawn with replacement, may
    # legally be larger than the whole triplet set
    desc["tuples"] = desc["d"] + substream(seed, "c15-small2").randint(1, 4)
  oi = r.choice([1, 2, 5, 10, 20])
  p = dict(beta=r.choice([1e-5, 1e-3, 1e-2, 0.1]), gamma=r.choice([5e-3, 5e-2, 0.5, 5.0]),
           output_iter=oi, max_iter=oi * r.randint(1, 6) + r.choice([0, 0, 0, 1, 3]),
           batch_size=r.choice([1, 2, 5, 10]))
  if small:
    p["batch_size"] = r.choice([10, 20, 7])
  tiny_basis = substream(seed, "c15-tiny").random() < 0.1
  bk = r.choice(["array", "array", "generated"])
  if bk == "array":
    nb = r.randint(max(2, d), 3 * d + 2)
    if tiny_basis:
      nb = substream(seed, "c15-tiny2").choice([1, 1, 2])    # a one- or two-element basis is a basis
    p["basis"] = {"$arr": dict(kind="basis", seed=r.randrange(10**6), nb=nb, d=d,
                               unit=r.random() < 0.7)}
    from ..estimators import gen_layout
    lay = gen_layout(substream(seed, "c15-layout"))
    if lay:
      p["basis"]["$arr"]["layout"] = lay
  else:
    if cls == "SCML":
      p["basis"] = "triplet_diffs"
      p["n_basis"] = r.choice([None, d, 2 * d, 3 * d + 1])
    else:
      p["basis"] = "lda"
      c = desc["classes"]
      hi = max(2, min(20 * d, desc["n"] * 2 * min(c - 1, d) - 1))
      p["n_basis"] = r.choice([None, min(hi, d + 1), min(hi, 2 * d), min(hi, 3 * d + 1)])
  if cls == "SCML_Supervised":
    p["k_genuine"] = r.randint(1, 3)
    p["k_impostor"] = r.randint(1, 4)
  int_data = r.random() < 0.2
  if int_data:            # integer-valued points handed over with an integer dtype
    desc["kind"] = "grid"
    desc["grid"] = 6
  rs = dict(kind=r.choice(["int", "sim", "scripted", "scripted"]), seed=r.randrange(2**31 - 1))
  if rs["kind"] == "scripted":
    rs["script"] = r.choice(["const", "cycle", "few", "rowconst"])
  plan = dict(run_seed=seed, cls=cls, dataset=desc, params=p, rs=rs, int_data=int_data)
  if cls == "SCML_Supervised" and p.get("basis") == "lda":
    rf = substream(seed, "c15-ldafault")
    if rf.random() < 0.3:
      plan["lda_fault"] = rf.choice([0, 1, 2, 3, 5, 8, 13])     # the k-th local LDA fit fails
  return plan


def run_plan(plan):
  import metric_learn as ml
  from metric_learn.constraints import Constraints
  cov = collections.Counter()
  events = []
  inconclusive = []
  violation = None
  nontrivial = False
  cls = plan["cls"]
  D = make_data(plan["dataset"])
  d = D.d
  p = dict(plan["params"])
  basis_param = p["basis"]
  if isinstance(basis_param, dict):
    p["basis"] = make_array(basis_param["$arr"])
  rsd = plan["rs"]
  if rsd["kind"] == "int":
    rs = int(rsd["seed"])
  elif rsd["kind"] == "sim":
    rs = world.SimRandomState(rsd["seed"])
    rs.keep_values = True
  else:
    rs = world.ScriptedRandomState(rsd["seed"], rsd["script"])
    rs.keep_values = True
  p["random_state"] = rs
  shape = [cls, "array" if isinstance(basis_param, dict) else basis_param,
           "int" if plan.get("int_data") else "float", rsd["kind"],
           rsd.get("script", "-"), repr(sorted((k, v) for k, v in plan["params"].items()
                                               if k not in ("basis",)))]
  try:
    est = getattr(ml, cls)(**p)
    if cls == "SCML":
      T = D.S[D.triplets_idx]
      if len(T) < d:
        raise Inconclusive("fewer_triplets_than_features")
      args = (T.astype(np.int64) if plan.get("int_data") else T.copy(),)
    else:
      args = (D.X.astype(np.int64) if plan.get("int_data") else D.X.copy(), D.y.copy())
      with world.observed():   # same array (and dtype) as the estimator sees: neighbour ties
        Tidx = Constraints(D.y).generate_knntriplets(args[0].copy(), p["k_genuine"], p["k_impostor"])
      T = D.X[Tidx]
    basis_dg = digest(p["basis"]) if isinstance(p["basis"], np.ndarray) else None
    lda_fault = plan.get("lda_fault")
    with world.observed() as wl, BasisObserver() as bo, \
        world.DrawObserver(keep_values=True) as obs, world.ConvertObserver() as co, \
        world.LdaSeam(fail_at=lda_fault) as ls:
      try:
        est.fit(*args)
        outcome, exc = "ok", None
      except Exception as e:
        outcome, exc = "exc:" + type(e).__name__, e
    ev = dict(cls=cls, outcome=outcome, warn=world.warn_cats(wl))
    events.append(ev)
    if ls.fired:
      cov["lda_fault_fired"] += 1
      if outcome != "ok":
        # a failing local LDA may make the fit fail: the property promises nothing then
        raise Inconclusive("fit_failed_under_lda_fault")
      # ... but a fit that returns has a generated basis of n_basis unit-norm rows
      cov["fit_returned_under_lda_fault"] += 1
    if outcome != "ok":
      if plan["dataset"].get("kind") == "grid" and not isinstance(p["basis"], np.ndarray):
        # integer-grid points (many exact duplicates) can make a *generated* basis
        # degenerate (local LDA on identical points): outside the property's domain
        raise Inconclusive("generated_basis_on_duplicate_points")
      why = ""
      if outcome == "exc:NonPSDError" and co.psd_within_rounding():
        why = ",psd_within_rounding"
      raise Violation("fit_raises", "cls=%s,basis=%s,exc=%s%s" % (cls, shape[1], outcome[4:], why),
                      "%s.fit raised %s: %s" % (cls, outcome, str(exc)[:200]))
    if basis_dg is not None and digest(p["basis"]) != basis_dg:
      raise Violation("basis_modified", "cls=%s" % cls, "the caller's basis array was modified")
    # ---- the draw program
    sources = [rs] if not isinstance(rs, int) else obs.created
    n_t = len(T)
    gp = est.get_params(deep=False)
    max_iter, batch = gp["max_iter"], gp["batch_size"]
    draws = [v[3].ravel() for s in sources for v in s.values
             if v[0] == "randint" and _high(v) == n_t]
    if not draws:
      raise Inconclusive("no_batch_draws_observed")
    flat = np.concatenate(draws)
    if flat.size != max_iter * batch:
      if flat.size % max_iter or flat.size == 0:
        raise Inconclusive("batch_draw_count_unexpected")
      # not max_iter x batch_size indices were drawn: take the batches as they
      # were drawn but keep the documented batch_size as the divisor of the
      # averaged hinge sub-gradient
      cov["batches_of_other_size_drawn"] += 1
    batches = flat.reshape(max_iter, flat.size // max_iter)
    ev["stream"] = digest(batches)
    cov["draw_program_" + (rsd.get("script") or rsd["kind"])] += 1
    # ---- the basis in use
    if isinstance(p["basis"], np.ndarray):
      B = p["basis"]
    else:
      if bo.missing or bo.basis is None:
        raise Inconclusive("seam_missing_components_builder")
      B = bo.basis
      norms = np.linalg.norm(B, axis=1)
      nb_given = plan["params"].get("n_basis")        # as the caller passed it
      if nb_given is not None and B.shape[0] != nb_given:
        raise Violation("generated_basis", "cls=%s,rows" % cls,
                        "generated basis has %d rows, n_basis=%r" % (B.shape[0], nb_given))
      if B.shape[1] != d or np.abs(norms - 1.0).max() > 1e-8:
        raise Violation("generated_basis", "cls=%s,unit_norm" % cls,
                        "generated basis rows are not unit norm: %r" % np.round(norms, 6).tolist()[:8])
      cov["generated_basis_checked"] += 1
    # ---- the reference scheme on the recorded draws
    R = ref.run(T, B, batches, gp["beta"], gp["gamma"], gp["output_iter"], batch_size=batch)
    if R["w"] is None:
      raise Inconclusive("no_checkpoint")
    M = est.get_mahalanobis_matrix()
    ev["M"] = digest(np.round(M / (np.abs(M).max() + 1e-300), 7))
    if R["ties"]:
      inconclusive.append("near_tie_in_reference_run")
      return _done(events, violation, cov, inconclusive, shape, nontrivial)
    if np.any(R["w"] < 0):
      raise Inconclusive("reference_weights_negative")
    w_obs = bo.__dict__.get("w")
    wmin = np.linalg.eigvalsh((M + M.T) / 2).min()
    if wmin < -1e-9 * max(1.0, np.abs(M).max()):
      raise Violation("psd", "cls=%s" % cls, "learned M is not PSD (lambda_min=%g)" % wmin)
    e = rel_err(M, R["M"])
    cov["compared"] += 1
    cov["active_basis_total"] += R["active"]
    cov["zero_metric"] += int(R["active"] == 0)
    cov["best_checkpoint_not_last"] += int(len(R["objs"]) > 1 and int(np.argmin(R["objs"])) != len(R["objs"]) - 1)
    nontrivial = R["active"] > 0
    if (np.abs(R["M"]).max() == 0 and np.abs(M).max() > 0) or e > TOL:
      raise Violation("scheme", "cls=%s,basis=%s,rs=%s" % (cls, shape[1], rsd.get("script") or rsd["kind"]),
                      "M differs from the reference dual-averaging run on the recorded batches: "
                      "relative %.3g (active basis %d, checkpoints %d, best %d)"
                      % (e, R["active"], len(R["objs"]), int(np.argmin(R["objs"]))))
    # ---- shape of the transformation and the low-rank warning
    L = est.components_
    if not R["weak_active"]:
      lowrank = R["active"] < d
      warned = world.has_warning(wl, UserWarning, "less than")
      want_rows = R["active"] if lowrank else d
      if L.shape != (want_rows, d):
        raise Violation("components_shape", "cls=%s,%s" % (cls, "lowrank" if lowrank else "fullrank"),
                        "components_ has shape %s with %d active basis elements and d=%d"
                        % (L.shape, R["active"], d))
      if lowrank and not warned:
        raise Violation("components_shape", "cls=%s,lowrank_no_warning" % cls,
                        "low-rank result without the documented warning")
      cov["lowrank"] += int(lowrank)
  except Violation as v:
    violation = dict(oracle=v.oracle, sig=v.sig, detail=v.detail, op=None)
  except Inconclusive as ic:
    inconclusive.append(ic.reason)
  return _done(events, violation, cov, inconclusive, shape, nontrivial)


def _high(v):
  a, k = v[1], v[2]
  if "high" in k and k["high"] is not None:
    return int(k["high"])
  if len(a) >= 2 and a[1] is not None:
    return int(a[1])
  return int(k.get("low", a[0] if a else -1))


def _done(events, violation, cov, inconclusive, shape, nontrivial):
  return dict(digest=log_digest(events), violation=violation, cov=dict(cov), events=events,
              inconclusive=sorted(set(inconclusive)), shape="%016x" % h64("|".join(shape)),
              nontrivial=nontrivial)


def shrink_moves(plan, violation):
  if plan["rs"]["kind"] != "int":
    p = copy.deepcopy(plan)
    p["rs"] = dict(kind="int", seed=plan["rs"]["seed"])
    yield p
  defaults = dict(batch_size=1, beta=1e-5, gamma=5e-3)
  for k, v in defaults.items():
    if plan["params"].get(k) != v:
      p = copy.deepcopy(plan)
      p["params"][k] = v
      yield p
  oi, mi = plan["params"]["output_iter"], plan["params"]["max_iter"]
  for noi, nmi in ((1, 1), (1, 2), (oi, oi), (1, mi), (oi, max(oi, mi // 2))):
    if (noi, nmi) != (oi, mi) and nmi >= noi:
      p = copy.deepcopy(plan)
      p["params"]["output_iter"], p["params"]["max_iter"] = noi, nmi
      yield p
  d = plan["dataset"]
  for key, lo in (("tuples", max(8, 2 * d["d"])), ("n", 4 * d["d"]), ("classes", 2)):
    if d.get(key, 0) > lo:
      p = copy.deepcopy(plan)
      p["dataset"][key] = max(lo, d[key] // 2 if key != "classes" else d[key] - 1)
      yield p
  b = plan["params"].get("basis")
  if isinstance(b, dict) and b["$arr"]["nb"] > max(2, d["d"]):
    p = copy.deepcopy(plan)
    p["params"]["basis"]["$arr"]["nb"] = max(2, d["d"])
    yield p
