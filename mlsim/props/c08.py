"""C08 - supervised variants equal the base learner run on label-derived
constraints (same hyper-parameters, same random_state); unlabeled points
contribute to no constraint.

Simulator dimension: R - the relation ties two executions together only through
'the same random_state'; it holds because both sides consume reproducible
streams and nothing else (ambient RNG, earlier fits of the same object) leaks
in.  The simulator perturbs exactly those between and before the two sides."""
import collections
import copy

import numpy as np

from .. import world
from ..core import Violation, Inconclusive, h64, digest, substream, np_stream, log_digest, rel_err
from ..data import make_data
from ..estimators import cls_of, Resolver, SUPERVISED
from ..histgen import gen_dataset, params_for, _data

ID = "C08"
TIERS = {"quick": dict(runs=700, budget=40, det=12),
         "thorough": dict(runs=50000, budget=560, det=120)}
INCONCLUSIVE_CEILING = 0.20   # both sides failing alike (SDML's RuntimeError, collapsed duplicate pairs) is common
RULE = ("seeded runs over the six supervised families x hyper-parameters x integer seeds x label "
        "vectors with/without unknown (-1) labels at arbitrary positions; the supervised estimator "
        "(optionally an object with an earlier fit on other data) is fitted, the ambient RNG state is "
        "perturbed, then the base learner is fitted on the output of the Constraints helper with the "
        "same seed (pairs and pair labels are formed by the oracle itself); with unknown labels the "
        "supervised fit is repeated with only the unlabeled points moved; non-trivial = both sides fitted and compared; distinct = distinct (family, "
        "parameters, unknown-label layout, history) signatures")
REAL_VS_STUB = dict(real=["metric_learn supervised + base estimators", "metric_learn.constraints",
                          "scikit-learn KMeans/LDA/graphical lasso"],
                    stub=["ambient numpy/python RNG state", "observer on SCML's components builder "
                          "(reads the generated 'lda' basis)"])
ASSUMPTIONS = ["default n_constraints (20 * n_classes^2) is only exercised on fully labelled y",
               "SDML's documented RuntimeError must occur on both sides or neither"]
TOL = 1e-9
STRIP = ("n_constraints", "num_constraints", "n_chunks", "num_chunks", "chunk_size",
         "k_genuine", "k_impostor", "weights")


def gen_plan(seed, tier):
  r = substream(seed, "c08")
  name = r.choice(SUPERVISED)
  unknown = r.random() < 0.5
  for _ in range(30):
    desc = gen_dataset(r, dmax=5, tuples=False, unknown=unknown, big=True)
    desc["classes"] = r.choice([2, 3, 3, 4])
    desc["n"] = max(desc["n"], 8 * desc["classes"] + 4)
    D = _data(desc)
    p = params_for(name, r, D)
    if p is not None:
      break
  if unknown and p.get("n_constraints", 1) is None and r.random() < 0.5:
    p["n_constraints"] = r.choice([10, 25, 60, 200, 500])
  elif not unknown and p.get("n_constraints", 1) is None and r.random() < 0.25:
    p["n_constraints"] = r.choice([15, 40, 200, 700])     # more than the labeled points can supply, too
  if r.random() < 0.2:
    desc["dups"] = r.randint(1, 2)        # identical rows at different indices
  if unknown and r.random() < 0.35:
    desc["neg_values"] = [-1, -2, -7]     # any negative label means "unknown"
  if name == "LSML_Supervised" and r.random() < 0.3:
    nc = p.get("n_constraints") or 20 * desc["classes"] ** 2
    p["weights"] = None   # placeholder: weights need the realised constraint count
  if name == "RCA_Supervised" and unknown:
    # chunk feasibility must hold for the *labeled* points
    Dp = _data(desc)
    yk = Dp.y_partial[Dp.y_partial >= 0]
    cs = p["chunk_size"]
    maxc = int(sum(c // cs for c in np.bincount(yk))) if len(yk) else 0
    p["n_chunks"] = max(1, min(p["n_chunks"], maxc))
  plan = dict(run_seed=seed, dataset=desc, cls=name, params=p, unknown=unknown,
              history=None, ambient=r.randrange(10**6))
  if r.random() < 0.45:
    if r.random() < 0.5:
      plan["history"] = dict(dataset=gen_dataset(r, dmax=5, tuples=False, big=True))
    else:
      # an earlier fit of the same object on the SAME points with other labels
      plan["history"] = dict(same_X=True, relabel=r.choice(["shift", "other_unknown", "both"]),
                             seed=r.randrange(10**6))
  rs_ = substream(seed, "c08-samey")
  if rs_.random() < 0.15:
    # an earlier fit of the same object with the SAME labels on other points of the same shape
    plan["history"] = dict(same_y=True, seed=rs_.randrange(10**6))
  return plan


class NConstraintsObserver(object):
  """Records the n_constraints the supervised estimator asks the Constraints
  helper for (the default rule with unknown labels present is not pinned down
  by the documentation, so the reference takes the observed value)."""

  def __init__(self):
    self.seen = []
    self.missing = False

  def __enter__(self):
    import metric_learn.constraints as mc
    self.cls = getattr(mc, "Constraints", None)
    if self.cls is None or not hasattr(self.cls, "positive_negative_pairs"):
      self.missing = True
      return self
    orig = self.cls.positive_negative_pairs
    obs = self

    def wrapped(self_, n_constraints=None, *a, **k):
      obs.seen.append(n_constraints)
      return orig(self_, n_constraints, *a, **k)
    self.orig = orig
    self.cls.positive_negative_pairs = wrapped
    return self

  def __exit__(self, *exc):
    if not self.missing:
      self.cls.positive_negative_pairs = self.orig
    return False


def derive_and_fit(name, params, X, y, basis_obs=None, nc_obs=None):
  """Base learner fitted on what the Constraints helper derives from y."""
  import metric_learn as ml
  from metric_learn.constraints import Constraints, wrap_pairs
  base_name = name[:-len("_Supervised")]
  hp = {k: v for k, v in params.items() if k not in STRIP}
  seed = params.get("random_state")
  C = Constraints(y)
  used = None
  if base_name in ("ITML", "MMC", "SDML"):
    nc = params.get("n_constraints")
    if nc is None:
      nc = nc_obs if nc_obs is not None else 20 * len(np.unique(y)) ** 2
    pos_neg = C.positive_negative_pairs(nc, random_state=seed)
    # the pairs and their labels are formed here, not by the library's
    # wrap_pairs: similar pairs (a, b) first, then dissimilar pairs (c, d)
    a_, b_, c_, d_ = [np.asarray(v, dtype=int).ravel() for v in pos_neg]
    pairs = np.concatenate([np.stack([X[a_], X[b_]], axis=1),
                            np.stack([X[c_], X[d_]], axis=1)], axis=0) \
        if len(a_) + len(c_) else np.zeros((0, 2, X.shape[1]))
    yp = np.concatenate([np.ones(len(a_), dtype=int), -np.ones(len(c_), dtype=int)])
    used = np.concatenate([np.asarray(a).ravel() for a in pos_neg])
    B = getattr(ml, base_name)(**hp)
    B.fit(pairs, yp)
    B._mlsim_unequal = len(a_) != len(c_)
  elif base_name == "LSML":
    nc = params.get("n_constraints")
    if nc is None:
      nc = nc_obs if nc_obs is not None else 20 * len(np.unique(y)) ** 2
    pos_neg = C.positive_negative_pairs(nc, same_length=True, random_state=seed)
    used = np.concatenate([np.asarray(a).ravel() for a in pos_neg])
    quads = X[np.column_stack(pos_neg)]
    B = ml.LSML(**hp)
    B.fit(quads, weights=params.get("weights"))
  elif base_name == "RCA":
    chunks = C.chunks(n_chunks=params["n_chunks"], chunk_size=params["chunk_size"],
                      random_state=seed)
    used = np.where(chunks >= 0)[0]
    B = ml.RCA(n_components=params.get("n_components"))
    B.fit(X, chunks)
  elif base_name == "SCML":
    T = C.generate_knntriplets(X, params["k_genuine"], params["k_impostor"])
    used = np.asarray(T).ravel()
    if isinstance(hp.get("basis"), str):
      hp["basis"] = basis_obs
      hp.pop("n_basis", None)
    B = ml.SCML(**hp)
    B.fit(X[T])
  return B, used


class BasisObserver(object):
  """Observes the basis handed to SCML's components builder."""

  def __init__(self):
    self.basis = None
    self.missing = False

  def __enter__(self):
    import metric_learn.scml as sc
    cls = getattr(sc, "_BaseSCML", None)
    self.cls = cls
    if cls is None or not hasattr(cls, "_components_from_basis_weights"):
      self.missing = True
      return self
    orig = cls._components_from_basis_weights
    obs = self

    def wrapped(self_, basis, w):
      obs.basis = np.array(basis, copy=True)
      return orig(self_, basis, w)
    self.orig = orig
    cls._components_from_basis_weights = wrapped
    return self

  def __exit__(self, *exc):
    if not self.missing:
      self.cls._components_from_basis_weights = self.orig
    return False


def run_plan(plan):
  cov = collections.Counter()
  events = []
  name = plan["cls"]
  D = make_data(plan["dataset"])
  X = D.X
  y = D.y_partial if plan["unknown"] else D.y
  R = Resolver()
  params = R.params(plan["params"])
  violation = None
  nontrivial = False
  inconclusive = []
  shape = [name, "unk" if plan["unknown"] else "full", "hist" if plan["history"] else "fresh",
           repr(sorted((k, v if not isinstance(v, dict) else "arr") for k, v in plan["params"].items()
                       if k not in ("random_state",)))]
  try:
    S = cls_of(name)(**copy.deepcopy(params))
    if plan["history"]:
      hist = plan["history"]
      if hist.get("same_X"):
        rh = np_stream(hist["seed"], "relabel")
        yh = D.y.copy()
        if hist["relabel"] in ("shift", "both"):
          lab = np.unique(D.y)
          yh = lab[(np.searchsorted(lab, D.y) + 1) % len(lab)]     # every point changes class
        if hist["relabel"] in ("other_unknown", "both"):
          yh = yh.copy()
          yh[rh.permutation(len(yh))[:max(1, len(yh) // 4)]] = -1
        Xh = X.copy()
        cov["with_history_same_X"] += 1
      elif hist.get("same_y"):
        rh = np_stream(hist["seed"], "samey")
        Xh = X[rh.permutation(len(X))] * 3.0 + rh.randn(*X.shape)
        yh = y.copy()
        cov["with_history_same_labels_other_points"] += 1
      else:
        Dh = make_data(hist["dataset"])
        Xh, yh = Dh.X.copy(), Dh.y.copy()
      try:
        with world.observed():
          # an earlier life of the same object (may fail: irrelevant)
          S.fit(Xh, yh)
      except Exception:
        pass
      cov["with_history"] += 1
    world.perturb_ambient(plan["ambient"], 3)
    with world.observed() as wl, BasisObserver() as bo, NConstraintsObserver() as no:
      try:
        S.fit(X.copy(), y.copy())
        so = "ok"
      except Exception as e:
        so, se = "exc:" + type(e).__name__, e
    events.append(dict(side="supervised", outcome=so,
                       state=digest(vars(S).get("components_")) if so == "ok" else None))
    world.perturb_ambient(plan["ambient"] * 7 + 13, 5)
    if name == "SCML_Supervised" and isinstance(params.get("basis"), str) and bo.missing:
      raise Inconclusive("seam_missing_components_builder")
    nc_obs = no.seen[0] if (no.seen and isinstance(no.seen[0], (int, np.integer))) else None
    if "n_constraints" in params and params["n_constraints"] is None and not np.any(y < 0) and \
        nc_obs is not None and not name.startswith(("RCA", "SCML")):
      want = 20 * len(np.unique(y)) ** 2
      cov["default_n_constraints_checked"] += 1
      if int(nc_obs) != want:
        raise Violation("default_n_constraints", "cls=%s" % name,
                        "n_constraints=None on fully labelled data with %d classes asked the helper for %r "
                        "constraints; documented default 20 * num_classes**2 = %d"
                        % (len(np.unique(y)), nc_obs, want))
    if params.get("n_constraints", 1) is None and plan["unknown"] and nc_obs is None and \
        not name.startswith(("RCA", "SCML")):
      raise Inconclusive("default_n_constraints_not_observable")
    with world.observed():
      try:
        B, used = derive_and_fit(name, params, X.copy(), y.copy(), basis_obs=bo.basis,
                                 nc_obs=nc_obs)
        bo_ = "ok"
      except Exception as e:
        bo_, be = "exc:" + type(e).__name__, e
    events.append(dict(side="base", outcome=bo_,
                       state=digest(vars(B).get("components_")) if bo_ == "ok" else None))
    if so != bo_:
      raise Violation("outcome_differs", "cls=%s" % name,
                      "%s.fit -> %s but base learner on derived constraints -> %s (%s)"
                      % (name, so, bo_, str(se if so != "ok" else be)[:200]))
    if so != "ok":
      if name.startswith("SDML") and so == "exc:RuntimeError":
        raise Inconclusive("sdml_runtime_error_both_sides")
      raise Inconclusive("both_sides_raise_" + so[4:])
    if np.any(y[used] < 0):
      raise Violation("unlabeled_in_constraints", "cls=%s" % name,
                      "the derived constraints use a point with unknown label")
    La, Lb = S.components_, B.components_
    Ma, Mb = La.T.dot(La), Lb.T.dot(Lb)
    if not (np.isfinite(Ma).all() and np.isfinite(Mb).all()):
      if not np.array_equal(np.isfinite(Ma), np.isfinite(Mb)):
        raise Violation("metric_differs", "cls=%s,nonfinite" % name, "non-finite pattern differs")
      raise Inconclusive("non_finite_model")
    e = rel_err(Ma, Mb)
    cov["compared"] += 1
    cov["compared_" + name] += 1
    cov["bit_identical"] += int(La.shape == Lb.shape and np.array_equal(La, Lb))
    cov["with_unknown_labels"] += int(plan["unknown"] and np.any(y < 0))
    cov["nonzero_metric"] += int(np.abs(Ma).max() > 0)
    nontrivial = True
    if e > TOL:
      raise Violation("metric_differs", "cls=%s,%s" % (name, "unknown_labels" if plan["unknown"] else "full_labels"),
                      "||M_supervised - M_base|| relative %.3g (unknown labels: %s, positions %r)"
                      % (e, plan["unknown"], np.where(y < 0)[0].tolist()[:8]))
    cov["unequal_pos_neg_counts"] += int(getattr(B, "_mlsim_unequal", False))
    # "the learned metric is the one obtained from the labeled points'
    # constraints alone": the coordinates of the unlabeled points are irrelevant
    unl = np.where(y < 0)[0]
    lda_basis = name == "SCML_Supervised" and isinstance(params.get("basis"), str)
    if plan["unknown"] and len(unl) and not lda_basis:
      r2 = np_stream(plan["run_seed"], "c08-unlabeled")
      X2 = X.copy()
      X2[unl] = X[unl][r2.permutation(len(unl))] + r2.randn(len(unl), X.shape[1]) * (X.std() + 1e-300) * 3.0
      world.perturb_ambient(plan["ambient"] * 11 + 5, 2)
      S2 = cls_of(name)(**copy.deepcopy(params))
      with world.observed():
        try:
          S2.fit(X2, y.copy())
          s2 = "ok"
        except Exception as e2:
          s2, se2 = "exc:" + type(e2).__name__, e2
      events.append(dict(side="supervised_moved_unlabeled", outcome=s2,
                         state=digest(vars(S2).get("components_")) if s2 == "ok" else None))
      if s2 != "ok":
        raise Violation("unlabeled_points_matter", "cls=%s,raises" % name,
                        "moving only the unlabeled points makes %s.fit raise %s: %s" % (name, s2, str(se2)[:200]))
      L2 = S2.components_
      e2 = rel_err(Ma, L2.T.dot(L2)) if L2.shape == La.shape else float("inf")
      cov["unlabeled_moved_compared"] += 1
      if e2 > TOL:
        raise Violation("unlabeled_points_matter", "cls=%s" % name,
                        "moving only the unlabeled points (labels < 0, positions %r) changes the "
                        "learned metric: relative %.3g" % (unl.tolist()[:8], e2))
  except Violation as v:
    violation = dict(oracle=v.oracle, sig=v.sig, detail=v.detail, op=None)
  except Inconclusive as ic:
    inconclusive.append(ic.reason)
  return dict(digest=log_digest(events), violation=violation, cov=dict(cov), events=events,
              inconclusive=inconclusive, shape="%016x" % h64("|".join(shape)), nontrivial=nontrivial)


def shrink_moves(plan, violation):
  if plan.get("history"):
    p = copy.deepcopy(plan)
    p["history"] = None
    yield p
  for k in sorted(plan["params"]):
    if k in ("n_chunks", "chunk_size", "k_genuine", "k_impostor"):
      continue
    p = copy.deepcopy(plan)
    del p["params"][k]
    yield p
  d = plan["dataset"]
  for key, lo in (("n", 4 * d["d"]), ("classes", 2), ("d", 2)):
    if d.get(key, 0) > lo:
      p = copy.deepcopy(plan)
      p["dataset"][key] = max(lo, d[key] - 1 if key != "n" else d[key] // 2)
      yield p
  for key in ("scale", "perm", "extra"):
    if d.get(key):
      p = copy.deepcopy(plan)
      p["dataset"][key] = 0
      yield p
  if plan["unknown"]:
    p = copy.deepcopy(plan)
    p["unknown"] = False
    yield p
