"""The simulated world: every seam the simulator owns.

Nothing here changes metric-learn's source.  Seams are either public
parameters (random_state instances, preprocessor callables, pickle) or
module-level names rebound for the duration of a run.  A module-level name that
is missing is recorded in `seam_missing` and that fault kind is switched off;
it is never an alarm.
"""
import contextlib
import io
import pickle
import random as pyrandom
import sys
import warnings

import numpy as np

from . import load_sut
from .core import digest, substream

load_sut()
import scipy.sparse.linalg as _spl  # noqa: E402
import metric_learn  # noqa: E402
import metric_learn._util as ml_util  # noqa: E402
import metric_learn.sdml as ml_sdml  # noqa: E402
import metric_learn.nca as ml_nca  # noqa: E402
import metric_learn.mlkr as ml_mlkr  # noqa: E402
import metric_learn.lfda as ml_lfda  # noqa: E402


# ------------------------------------------------------------------ PRNG seam

_RS_METHODS = ["randint", "choice", "randn", "rand", "random_sample", "random",
               "uniform", "normal", "standard_normal", "permutation",
               "shuffle", "tomaxint", "random_integers", "beta", "gamma",
               "exponential", "multivariate_normal"]


def _argsum(a, k):
  out = []
  for x in list(a) + [v for _, v in sorted(k.items())]:
    if isinstance(x, np.ndarray):
      out.append("arr%s" % (x.shape,))
    elif isinstance(x, (list, tuple)) and len(x) > 6:
      out.append("seq%d" % len(x))
    else:
      out.append(repr(x))
  return ",".join(out)


class SimRandomState(np.random.RandomState):
  """A numpy RandomState that records every draw made through it.

  MT19937-backed: the stream is bit-identical to RandomState(seed)."""

  def __init__(self, seed=None):
    np.random.RandomState.__init__(self, seed)
    self.sim_seed = seed
    self.draws = []
    self.values = []
    self.keep_values = False

  def sim_digest(self):
    return "SimRS(%r)" % (self.sim_seed,)

  def n_draws(self):
    return len(self.draws)

  def stream_digest(self):
    return digest([list(d) for d in self.draws])


def _mk_rec(name):
  base = getattr(np.random.RandomState, name)

  def rec(self, *a, **k):
    # only top-level draws are recorded (choice() calls randint() internally)
    depth = self.__dict__.get("_depth", 0)
    self.__dict__["_depth"] = depth + 1
    try:
      out = base(self, *a, **k)
    finally:
      self.__dict__["_depth"] = depth
    if depth == 0:
      try:
        self.draws.append((name, _argsum(a, k), digest(out)))
        if self.__dict__.get("keep_values"):
          self.values.append((name, a, dict(k), np.array(out, copy=True)))
      except AttributeError:   # object rebuilt by copy/pickle without __init__
        pass
    return out
  rec.__name__ = name
  return rec


for _n in _RS_METHODS:
  if hasattr(np.random.RandomState, _n):
    setattr(SimRandomState, _n, _mk_rec(_n))


class ScriptedRandomState(SimRandomState):
  """A RandomState whose integer draws are chosen by the simulator: randint
  returns in-range values following a script (degenerate but legal streams: the
  same index every time, a short cycle, a tiny support).  Everything else stays
  MT19937-backed."""

  def __init__(self, seed=None, script="const"):
    SimRandomState.__init__(self, seed)
    self.script = script
    self._k = 0

  def sim_digest(self):
    return "ScriptedRS(%r,%s)" % (self.sim_seed, self.script)

  def randint(self, low, high=None, size=None, dtype=int):
    if high is None:
      low, high = 0, low
    n = int(np.prod(size)) if size is not None else 1
    span = int(high) - int(low)
    base = int(self.sim_seed or 0)
    if self.script == "const":
      vals = np.full(n, base % span)
    elif self.script == "cycle":
      vals = (np.arange(self._k, self._k + n) + base) % span
    elif self.script == "few":
      support = np.array([(base + 7 * j) % span for j in range(3)])
      vals = support[(np.arange(self._k, self._k + n) * 2654435761 % 4294967296 >> 7) % 3]
    elif self.script == "rowconst":     # every mini-batch is one triplet repeated
      cols = size[-1] if isinstance(size, tuple) and len(size) > 1 else 1
      vals = np.repeat((np.arange(-(-n // cols)) * 5 + base) % span, cols)[:n]
    else:
      raise ValueError(self.script)
    self._k += n
    out = (vals + int(low)).astype(dtype)
    out = out.reshape(size) if size is not None else out[0]
    self.draws.append(("randint", _argsum((low, high), dict(size=size)), digest(out)))
    if self.keep_values:
      self.values.append(("randint", (low, high), dict(size=size), np.array(out, copy=True)))
    return out


class DrawObserver(object):
  """Observes integer-seeded fits: wraps the module-level check_random_state
  names so that the RandomState created from an int seed is a recording one.
  Missing names are tolerated."""

  MODULES = ("metric_learn._util", "metric_learn.constraints",
             "metric_learn.scml")

  def __init__(self, keep_values=False):
    self.created = []
    self.saved = []
    self.missing = []
    self.keep_values = keep_values

  def _wrap(self, orig):
    obs = self

    def check_random_state(seed):
      if isinstance(seed, (int, np.integer)) and not isinstance(seed, bool):
        rs = SimRandomState(int(seed))
        rs.keep_values = obs.keep_values
        obs.created.append(rs)
        return rs
      return orig(seed)
    return check_random_state

  def __enter__(self):
    for mn in self.MODULES:
      mod = sys.modules.get(mn)
      if mod is None or not hasattr(mod, "check_random_state"):
        self.missing.append(mn + ".check_random_state")
        continue
      orig = getattr(mod, "check_random_state")
      self.saved.append((mod, orig))
      setattr(mod, "check_random_state", self._wrap(orig))
    return self

  def __exit__(self, *exc):
    for mod, orig in self.saved:
      setattr(mod, "check_random_state", orig)
    self.saved = []
    return False

  def total_draws(self):
    return sum(len(r.draws) for r in self.created)


# ------------------------------------------------------------ preprocessor seam

class UserStoreError(Exception):
  """A user-defined exception type a preprocessor may raise."""


EXC_TYPES = {
    "ValueError": ValueError, "KeyError": KeyError, "IndexError": IndexError,
    "RuntimeError": RuntimeError, "MemoryError": MemoryError,
    "StopIteration": StopIteration, "UserStoreError": UserStoreError,
    "OSError": OSError, "TypeError": TypeError, "ZeroDivisionError":
    ZeroDivisionError,
}


class PointStore(object):
  """The 'point store' stub: a callable preprocessor over a backing array.
  The simulator arms a fault at the k-th call counted from the arming."""

  def __init__(self, X, mixed=False, returns=None):
    self.X = np.asarray(X)
    self.returns = returns    # None: ndarray; "list" / "tuple": a nested list / tuple of tuples (a legal 2D array-like)
    self.mixed = bool(mixed)  # behaves like a Python table: whole-number rows come back as integers
    self.calls = []          # digests of every index array it was asked for
    self.armed = None        # dict(at=k, exc=name)
    self._since_arm = 0
    self.fired = []

  def arm(self, at, exc):
    self.armed = dict(at=int(at), exc=exc)
    self._since_arm = 0

  def disarm(self):
    a = self.armed
    self.armed = None
    return a

  def __call__(self, indices):
    ind = np.asarray(indices)
    self.calls.append((ind.shape, digest(ind)))
    if self.armed is not None:
      k = self._since_arm
      self._since_arm += 1
      if k == self.armed["at"]:
        name = self.armed["exc"]
        self.fired.append((len(self.calls) - 1, name))
        self.armed = None
        if name == "PreprocessorError":
          from metric_learn.exceptions import PreprocessorError
          raise PreprocessorError(RuntimeError("simulated store failure"))
        if len(self.calls) % 3 == 0:
          raise EXC_TYPES[name]()       # an exception that carries no arguments (bare raise KeyError, failing assert)
        raise EXC_TYPES[name]("simulated store failure #%d" % k)
    out = self.X[ind]
    if self.mixed and out.dtype.kind == "f" and out.size and np.all(out == np.round(out)) \
        and np.abs(out).max() < 2 ** 52:
      # np.array([table[i] for i in indices]) over a table whose rows hold
      # Python ints where the numbers are whole: the dtype depends on the rows asked for
      out = out.astype(np.int64)
    if self.returns == "list":
      return out.tolist()
    if self.returns == "tuple":
      return tuple(tuple(row) for row in out.tolist()) if out.ndim == 2 else tuple(out.tolist())
    return out

  def sim_digest(self):
    return "PointStore:" + digest(self.X) + ("m" if self.mixed else "") + (self.returns or "")

  def __getstate__(self):
    return dict(X=self.X, calls=list(self.calls), armed=self.armed,
                _since_arm=self._since_arm, fired=list(self.fired), mixed=self.mixed,
                returns=self.returns)

  def __setstate__(self, st):
    self.__dict__.update(st)


# ------------------------------------------------------------------ ARPACK seam

class EigshSeam(object):
  """Owns the ARPACK start vector (scipy seeds it from OS entropy otherwise)
  and can force the legal 'no convergence' outcome."""

  def __init__(self):
    self.orig = None
    self.mode = "seeded"
    self.seed = 12345
    self.calls = 0
    self.forced = 0
    self.eigh_forced = 0
    self.installed = False
    self.patched_lfda_name = False

  def install(self):
    if self.installed:
      return
    self.orig = _spl.eigsh
    _spl.eigsh = self
    if hasattr(ml_lfda, "eigsh"):
      ml_lfda.eigsh = self
      self.patched_lfda_name = True
    # second link of LFDA's fallback chain: the dense symmetric solver.  Only
    # calls made from metric_learn/lfda.py are ever failed; everybody else
    # (scikit-learn, the oracles) gets the real scipy.linalg.eigh.
    import scipy.linalg as _sl
    self._sl = _sl
    self.orig_eigh = _sl.eigh
    seam = self

    def eigh(*a, **k):
      if seam.mode == "fail2":
        try:
          caller = sys._getframe(1).f_code.co_filename
        except Exception:
          caller = ""
        if caller.replace("\\", "/").endswith("metric_learn/lfda.py"):
          seam.eigh_forced += 1
          raise np.linalg.LinAlgError("simulated: eigenvalue computation did not converge")
      return seam.orig_eigh(*a, **k)
    eigh.__wrapped__ = self.orig_eigh
    _sl.eigh = eigh
    self.installed = True

  def uninstall(self):
    if self.installed:
      _spl.eigsh = self.orig
      self._sl.eigh = self.orig_eigh
      if self.patched_lfda_name:
        ml_lfda.eigsh = self.orig
      self.installed = False

  def __call__(self, *a, **k):
    self.calls += 1
    if self.mode in ("fail", "fail2"):
      self.forced += 1
      raise _spl.ArpackNoConvergence(
          "ARPACK error -1: simulated: no convergence", None, None)
    if "rng" not in k and "v0" not in k:
      k["rng"] = int(self.seed)
    return self.orig(*a, **k)


EIGSH = EigshSeam()


# ------------------------------------------------------- graphical lasso seam

class GlassoSeam(object):
  """Rebinds metric_learn.sdml.graphical_lasso.  mode None = real solver
  (observed); otherwise a stub that fails in one of the ways a real
  graphical-lasso solver can fail."""

  NAME = "graphical_lasso"

  def __init__(self):
    self.mode = None
    self.calls = []
    self.fired = 0
    self.orig = None
    self.missing = not hasattr(ml_sdml, self.NAME)

  def __enter__(self):
    if not self.missing:
      self.orig = getattr(ml_sdml, self.NAME)
      setattr(ml_sdml, self.NAME, self)
    return self

  def __exit__(self, *exc):
    if not self.missing:
      setattr(ml_sdml, self.NAME, self.orig)
    return False

  def __call__(self, emp_cov, *a, **k):
    emp = np.array(emp_cov, dtype=float, copy=True)
    self.calls.append(dict(emp_cov=emp, alpha=k.get("alpha", a[0] if a else None)))
    mode = self.mode
    if mode is None:
      return self.orig(emp_cov, *a, **k)
    self.fired += 1
    d = emp.shape[0]
    if mode == "raise_fpe":
      raise FloatingPointError("Non SPD result: the system is too "
                               "ill-conditioned for this solver (simulated)")
    if mode == "raise_linalg":
      raise np.linalg.LinAlgError("simulated: singular matrix")
    if mode == "raise_value":
      raise ValueError("simulated: solver rejected the input")
    P = np.eye(d)
    if mode == "nan":
      P[0, d - 1] = P[d - 1, 0] = np.nan
    elif mode == "inf":
      P[0, 0] = np.inf
    elif mode == "neginf":
      P[d - 1, d - 1] = -np.inf
    elif mode == "indefinite":
      P[d - 1, d - 1] = -1.0
    elif mode == "indefinite_even":      # two negative eigenvalues: det > 0
      P[d - 1, d - 1] = -1.0
      P[0, 0] = -2.0
    elif mode == "slightly_negative":
      P[d - 1, d - 1] = -1e-6
    elif mode == "all_nan":
      P[:] = np.nan
    else:
      raise RuntimeError("unknown glasso fault mode %r" % mode)
    cov = np.eye(d)
    # same return arity as scikit-learn's private solver: (cov, prec, costs, n_iter)
    return cov, P, [(0.0, 0.0)], 0


GLASSO_FAULTS = ["raise_fpe", "raise_linalg", "raise_value", "nan", "inf",
                 "neginf", "indefinite", "indefinite_even", "slightly_negative", "all_nan"]


# ------------------------------------------------------------------- LDA seam

class LdaSeam(object):
  """Rebinds the module-level name LinearDiscriminantAnalysis inside
  metric_learn.scml: the local LDA fits of SCML_Supervised's 'lda' basis.  In
  fault mode the k-th fit raises LinAlgError (what scikit-learn's LDA does on a
  degenerate local region).  Missing name => fault kind switched off."""

  def __init__(self, fail_at=None):
    self.fail_at = fail_at
    self.calls = 0
    self.fired = 0
    self.mod = sys.modules.get("metric_learn.scml")
    self.missing = self.mod is None or not hasattr(self.mod, "LinearDiscriminantAnalysis")
    self.orig = None

  def __enter__(self):
    if self.missing:
      return self
    seam = self
    self.orig = self.mod.LinearDiscriminantAnalysis

    class FaultyLDA(self.orig):
      def fit(self_, X, y, *a, **k):
        i = seam.calls
        seam.calls += 1
        if seam.fail_at is not None and i == seam.fail_at:
          seam.fired += 1
          raise np.linalg.LinAlgError("simulated: SVD did not converge")
        return seam.orig.fit(self_, X, y, *a, **k)
    FaultyLDA.__name__ = "LinearDiscriminantAnalysis"
    self.mod.LinearDiscriminantAnalysis = FaultyLDA
    return self

  def __exit__(self, *exc):
    if not self.missing:
      self.mod.LinearDiscriminantAnalysis = self.orig
    return False


class PinvhSeam(object):
  """scipy.linalg.pinvh as seen from metric_learn/covariance.py: in fault mode its
  first call raises LinAlgError (what LAPACK's eigen-solver does when it does not
  converge).  A fit that propagates the error promises nothing; a fit that returns
  has to return the (pseudo-)inverse covariance all the same."""

  def __init__(self, fail_first=False):
    self.fail_first = fail_first
    self.fired = 0
    self.calls = 0

  def __enter__(self):
    import scipy.linalg as sl
    self.sl = sl
    self.orig = sl.pinvh
    seam = self

    def pinvh(*a, **k):
      try:
        caller = sys._getframe(1).f_code.co_filename.replace("\\", "/")
      except Exception:
        caller = ""
      if caller.endswith("metric_learn/covariance.py"):
        seam.calls += 1
        if seam.fail_first and seam.calls == 1:
          seam.fired += 1
          raise np.linalg.LinAlgError("simulated: eigenvalues did not converge")
      return seam.orig(*a, **k)
    sl.pinvh = pinvh
    return self

  def __exit__(self, *exc):
    self.sl.pinvh = self.orig
    return False


class UtilEighSeam(object):
  """scipy.linalg.eigh as bound in metric_learn/_util.py (the decomposition of an array
  prior / init and of the covariance): in fault mode its first call raises LinAlgError
  (LAPACK's "eigenvalues did not converge").  A fit that propagates the error promises
  nothing; a fit that *returns* must have done what the option means all the same - in
  particular it must not have accepted a matrix it would otherwise refuse."""

  def __init__(self, fail_first=False):
    self.fail_first = fail_first
    self.fired = 0
    self.calls = 0
    self.missing = False

  def __enter__(self):
    import metric_learn._util as mu
    self.mu = mu
    self.orig = getattr(mu, "eigh", None)
    if self.orig is None:
      self.missing = True
      return self
    seam = self

    def eigh(*a, **k):
      seam.calls += 1
      if seam.fail_first and seam.calls == 1:
        seam.fired += 1
        raise np.linalg.LinAlgError("simulated: eigenvalues did not converge")
      return seam.orig(*a, **k)
    mu.eigh = eigh
    return self

  def __exit__(self, *exc):
    if not self.missing:
      self.mu.eigh = self.orig
    return False


# ------------------------------------------------------------------ clock seam

class SimClock(object):
  """Simulated wall clock handed to the modules that read time.time()."""

  def __init__(self, seed=0, jumpy=False):
    self.rng = substream(seed, "clock")
    self.t = 1.7e9
    self.reads = 0
    self.jumps = 0
    self.jumpy = jumpy

  def time(self):
    self.reads += 1
    r = self.rng.random()
    if self.jumpy and r < 0.2:
      self.jumps += 1
      self.t += self.rng.choice([-86400.0, -3.5, 7200.0, 1e7])
    else:
      self.t += 0.0005 + r * 0.01
    return self.t

  def __getattr__(self, name):   # anything else falls through to real time
    import time as _t
    return getattr(_t, name)


class ClockSeam(object):
  MODS = (ml_nca, ml_mlkr, ml_util)

  def __init__(self, clock):
    self.clock = clock
    self.saved = []
    self.missing = []

  def __enter__(self):
    for m in self.MODS:
      if hasattr(m, "time") and hasattr(getattr(m, "time"), "time"):
        self.saved.append((m, m.time))
        m.time = self.clock
      else:
        self.missing.append(m.__name__ + ".time")
    return self

  def __exit__(self, *exc):
    for m, t in self.saved:
      m.time = t
    return False


# ------------------------------------------------- PSD-conversion observer

class ConvertObserver(object):
  """Observer (no fault): records the last matrix each learner hands to
  components_from_metric, through the module-level names.  Used only as a
  discriminator: when a fit raises NonPSDError, was the matrix it tried to
  convert positive semi-definite up to rounding?"""

  MODS = ("scml", "itml", "mmc", "sdml", "lsml", "covariance")

  def __init__(self):
    self.last = None
    self.saved = []

  def __enter__(self):
    obs = self
    for mn in self.MODS:
      mod = sys.modules.get("metric_learn." + mn)
      if mod is None or not hasattr(mod, "components_from_metric"):
        continue
      orig = mod.components_from_metric

      def wrapped(metric, *a, _orig=orig, **k):
        try:
          obs.last = np.array(metric, dtype=float, copy=True)
        except Exception:
          obs.last = None
        return _orig(metric, *a, **k)
      self.saved.append((mod, orig))
      mod.components_from_metric = wrapped
    return self

  def __exit__(self, *exc):
    for mod, orig in self.saved:
      mod.components_from_metric = orig
    self.saved = []
    return False

  def psd_within_rounding(self):
    """True / False, or None when nothing was observed."""
    M = self.last
    if M is None or M.ndim != 2 or M.shape[0] != M.shape[1] or not np.isfinite(M).all():
      return None
    if np.abs(M - M.T).max() > 1e-12 * max(1.0, np.abs(M).max()):
      return False
    w = np.linalg.eigvalsh((M + M.T) / 2)
    return bool(w.min() >= -1e3 * len(w) * np.finfo(float).eps * max(np.abs(w).max(), 1e-300))


# ------------------------------------------------------------ optimiser probe

class MinimizeProbe(object):
  """Probe stub for scipy.optimize.minimize inside nca/mlkr: evaluates the
  objective once at x0 and returns x0, so that the initialisation can be read
  through the public API (used by C20 only)."""

  def __init__(self, module):
    self.module = module
    self.calls = 0
    self.missing = not hasattr(module, "minimize")
    self.orig = None
    self.x0 = None

  def __enter__(self):
    if not self.missing:
      self.orig = self.module.minimize
      self.module.minimize = self
    return self

  def __exit__(self, *exc):
    if not self.missing:
      self.module.minimize = self.orig
    return False

  def __call__(self, fun=None, x0=None, args=(), **kw):
    from scipy.optimize import OptimizeResult
    self.calls += 1
    x0 = np.array(x0, dtype=float, copy=True)
    self.x0 = x0.copy()
    val = fun(x0, *args)
    f = val[0] if isinstance(val, tuple) else val
    return OptimizeResult(x=x0, fun=f, nit=0, success=True,
                          message="simulated probe", status=0)


# ------------------------------------------------------------ crash-point seam

class SimInterrupt(KeyboardInterrupt):
  """An asynchronous interruption (Ctrl-C style) delivered by the simulator at
  a chosen line of metric-learn code.  A BaseException: library code that
  catches Exception does not swallow it."""


class SimAllocFailure(MemoryError):
  """A failing allocation delivered by the simulator at a chosen line."""


INTERRUPT_TYPES = {"KeyboardInterrupt": SimInterrupt, "MemoryError": SimAllocFailure}


class LineInterrupter(object):
  """Crash-point seam: counts 'line' events executed inside the repository's
  metric_learn package (sys.settrace; no source change) and, when armed, raises
  an exception *in the traced frame* at the at-th line - an interruption of a
  running call at an arbitrary point.  With at=None it only counts (dry run),
  which is how the simulator learns how many crash points a call has."""

  CAP = 60000      # crash points explored per call: the first CAP line events

  class StopCount(BaseException):
    """Ends a counting dry run once CAP line events have been seen."""

  def __init__(self, at=None, exc="KeyboardInterrupt"):
    import os
    from . import REPO
    self.root = os.path.join(REPO, "metric_learn") + os.sep
    self.at = at
    self.exc = exc
    self.n = 0
    self.fired = False
    self.where = None
    self._old = None
    self.by_func = {}        # counting mode: (file, function) -> line-event indices, in order of first entry

  def _global(self, frame, event, arg):
    if frame.f_code.co_filename.startswith(self.root):
      return self._local
    return None

  def _local(self, frame, event, arg):
    if event == "line":
      k = self.n
      self.n += 1
      if self.at is None:
        self.by_func.setdefault((frame.f_code.co_filename, frame.f_code.co_name), []).append(k)
        if self.n >= self.CAP:
          raise LineInterrupter.StopCount()
      if self.at is not None and k == self.at and not self.fired:
        self.fired = True
        fn = frame.f_code.co_filename[len(self.root):]
        self.where = "%s:%s" % (fn, frame.f_code.co_name)
        raise INTERRUPT_TYPES[self.exc]("simulated interruption at line event %d" % k)
    return self._local

  def __enter__(self):
    self._old = sys.gettrace()
    sys.settrace(self._global)
    return self

  def __exit__(self, *exc):
    sys.settrace(self._old)
    return False


# ------------------------------------------------------- pristine-process seam

def _read_exact(fd, n):
  import os
  buf = b""
  while len(buf) < n:
    chunk = os.read(fd, min(1 << 20, n - len(buf)))
    if not chunk:
      return None
    buf += chunk
  return buf


def _write_all(fd, data):
  import os
  mv = memoryview(data)
  while len(mv):
    k = os.write(fd, mv[:1 << 20])
    mv = mv[k:]


class PristineServer(object):
  """A process forked *before any simulated history has run* (at worker start,
  or at first use in a fresh interpreter).  It serves reference computations:
  each request is executed in a grandchild forked from the still pristine
  server, so neither the history under test nor earlier reference computations
  can have left anything behind in module-level state of metric-learn or of its
  dependencies (caches, registries, class attributes, mutated default lists).
  This is what "a fresh process" means for a fresh-object reference model."""

  def __init__(self):
    import os
    c2s_r, c2s_w = os.pipe()
    s2c_r, s2c_w = os.pipe()
    pid = os.fork()
    if pid == 0:
      try:
        os.close(c2s_w)
        os.close(s2c_r)
        self._serve(c2s_r, s2c_w)
      except BaseException:
        pass
      finally:
        os._exit(0)
    os.close(c2s_r)
    os.close(s2c_w)
    self.w, self.r, self.pid = c2s_w, s2c_r, pid
    self.calls = 0

  @staticmethod
  def _serve(rfd, wfd):
    import os
    import signal
    import struct
    signal.setitimer(signal.ITIMER_PROF, 0)
    signal.alarm(0)
    for sg in (signal.SIGALRM, signal.SIGPROF, signal.SIGINT, signal.SIGTERM):
      try:
        signal.signal(sg, signal.SIG_DFL)
      except Exception:
        pass
    while True:
      hdr = _read_exact(rfd, 8)
      if hdr is None:
        return
      payload = _read_exact(rfd, struct.unpack(">Q", hdr)[0])
      if payload is None:
        return
      gr, gw = os.pipe()
      g = os.fork()
      if g == 0:
        code = 0
        try:
          os.close(gr)
          signal.alarm(180)
          try:
            func, arg = pickle.loads(payload)
            out = ("ok", func(arg))
          except BaseException as e:
            out = ("exc", (type(e).__name__, str(e)[:500]))
          _write_all(gw, pickle.dumps(out, protocol=4))
        except BaseException:
          code = 1
        finally:
          os._exit(code)
      os.close(gw)
      chunks = []
      while True:
        c = os.read(gr, 1 << 20)
        if not c:
          break
        chunks.append(c)
      os.close(gr)
      try:
        os.waitpid(g, 0)
      except Exception:
        pass
      data = b"".join(chunks) or pickle.dumps(("exc", ("ChildDied", "reference child produced no answer")))
      _write_all(wfd, struct.pack(">Q", len(data)) + data)

  def call(self, func, arg):
    """Run func(arg) in a pristine process; returns ('ok', value) or ('exc', (type name, message))."""
    import struct
    payload = pickle.dumps((func, arg), protocol=4)
    _write_all(self.w, struct.pack(">Q", len(payload)) + payload)
    hdr = _read_exact(self.r, 8)
    if hdr is None:
      raise RuntimeError("pristine server is gone")
    data = _read_exact(self.r, struct.unpack(">Q", hdr)[0])
    self.calls += 1
    return pickle.loads(data)


def fresh_call(modname, funcname, arg, hashseed="2718"):
  """Run modname.funcname(arg) in a brand-new interpreter with another string-hash salt;
  same answer format as PristineServer.call."""
  import os
  import subprocess
  import sys
  env = dict(os.environ)
  env["PYTHONHASHSEED"] = hashseed
  verif = os.path.dirname(os.path.dirname(os.path.abspath(__file__)))
  p = subprocess.run([sys.executable, "-m", "mlsim.freshcall"], cwd=verif, env=env,
                     input=pickle.dumps((modname, funcname, arg), protocol=4),
                     capture_output=True, timeout=170)
  if p.returncode != 0 or not p.stdout:
    return ("exc", ("FreshInterpreterFailed", (p.stderr or b"")[-300:].decode("utf-8", "replace")))
  return pickle.loads(p.stdout)


_PRISTINE = [None, None]


def pristine():
  """The pristine server of this process (created on first use; pool workers
  create theirs before their first run)."""
  import os
  if _PRISTINE[0] is None or _PRISTINE[1] != os.getpid():
    _PRISTINE[0] = PristineServer()
    _PRISTINE[1] = os.getpid()
  return _PRISTINE[0]


# ------------------------------------------------------------ ambient state

def perturb_ambient(seed, draws=3):
  """Scramble everything a fit must NOT depend on."""
  np.random.seed(int(seed) % (2**32))
  if draws:
    np.random.rand(int(draws))
  pyrandom.seed(int(seed) * 7919 + 1)
  pyrandom.random()


def ambient_snapshot():
  st = np.random.get_state()
  return digest([st[0], st[1], st[2], st[3], st[4]]) + digest(repr(pyrandom.getstate())[:4000])


# ------------------------------------------------------------ warnings, stdout

class RunWarnings(object):
  """Run-level warning recorder.  The warning filters are set up ONCE for the
  whole run ('always', in front) and every warning is recorded through the
  warnings.showwarning hook; the individual operations do not enter
  catch_warnings any more.  So the filter list is process state that lives
  across the operations of a run, as it does in a user's process - a library
  call that leaves a filter behind (e.g. an 'ignore' that it fails to remove)
  is visible to what comes later in the same run."""

  ACTIVE = [None]

  def __enter__(self):
    self.saved_filters = warnings.filters[:]
    self.saved_show = warnings.showwarning
    warnings.simplefilter("always")
    self.log = []

    def show(message, category, filename, lineno, file=None, line=None):
      self.log.append(warnings.WarningMessage(message, category, filename, lineno, file, line))
    self.show = show
    warnings.showwarning = show
    self.prev = RunWarnings.ACTIVE[0]
    RunWarnings.ACTIVE[0] = self
    return self

  def __exit__(self, *exc):
    RunWarnings.ACTIVE[0] = self.prev
    warnings.showwarning = self.saved_show
    warnings.filters[:] = self.saved_filters
    try:
      warnings._filters_mutated()
    except Exception:
      pass
    return False


@contextlib.contextmanager
def observed():
  """Record every warning (independent of what was warned earlier) and swallow
  verbose printing.  Inside a RunWarnings context the filters are left alone and
  the warnings of this block are the slice of the run-level log it produced."""
  out = io.StringIO()
  rw = RunWarnings.ACTIVE[0]
  if rw is not None and warnings.showwarning is rw.show:
    start = len(rw.log)
    wlist = []
    old = sys.stdout
    sys.stdout = out
    try:
      yield wlist
    finally:
      sys.stdout = old
      wlist.extend(rw.log[start:])
    return
  with warnings.catch_warnings(record=True) as wlist:
    warnings.simplefilter("always")
    old = sys.stdout
    sys.stdout = out
    try:
      yield wlist
    finally:
      sys.stdout = old


def warn_cats(wlist):
  return sorted(set(w.category.__name__ for w in wlist))


def has_warning(wlist, category, needle=None):
  for w in wlist:
    if issubclass(w.category, category):
      if needle is None or needle in str(w.message):
        return True
  return False


# ------------------------------------------------------------ durable storage

def restart_inproc(est):
  """Crash/restart with only durable state surviving, in-process."""
  blob = pickle.dumps(est, protocol=pickle.HIGHEST_PROTOCOL)
  return pickle.loads(blob), len(blob)
