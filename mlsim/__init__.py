"""mlsim - deterministic simulation with fault injection for metric-learn.

Importing this package pins BLAS to one thread and puts the repository under
test ($VERIF_REPO, default /repo) first on sys.path, so that every check runs
the *current working tree* of the repository (nothing is built or cached).
"""
import os
import sys

for _v in ("OPENBLAS_NUM_THREADS", "OMP_NUM_THREADS", "MKL_NUM_THREADS",
           "NUMEXPR_NUM_THREADS", "VECLIB_MAXIMUM_THREADS"):
  os.environ[_v] = "1"
os.environ.setdefault("PYTHONWARNINGS", "default")
# no bytecode is written into the repository under test
sys.dont_write_bytecode = True

REPO = os.path.realpath(os.environ.get("VERIF_REPO", "/repo"))
VERIF = os.path.dirname(os.path.dirname(os.path.realpath(__file__)))
GUARD = "METRIC_LEARN_VERIF"   # reserved; no source hook needs it today

if REPO not in sys.path[:1]:
  sys.path.insert(0, REPO)


def load_sut():
  """Import metric_learn from REPO and assert that it is the real code."""
  import metric_learn
  f = os.path.realpath(metric_learn.__file__)
  if not f.startswith(REPO + os.sep):
    raise RuntimeError("metric_learn imported from %s, expected under %s"
                       % (f, REPO))
  return metric_learn
