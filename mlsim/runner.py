"""Batch runner: seeded exploration across worker processes, violation
handling (known findings, shrinking, replay files) and evidence writing."""
import collections
import concurrent.futures as cf
import faulthandler
import fnmatch
import importlib
import json
import multiprocessing as mp
import os
import signal
import subprocess
import sys
import time
import traceback

from . import REPO, VERIF
from .core import run_seed, canon, log_digest, RunTimeout

PROPS = ["C03", "C04", "C05", "C07", "C08", "C09", "C13", "C15", "C16", "C17",
         "C18", "C20"]
RUN_TIMEOUT_S = 60          # CPU seconds per run
RUN_WALL_TIMEOUT_S = 600     # wall-clock fallback per run


def _alarm(signum, frame):
  raise RunTimeout("per-run wall timeout")


def prop_module(pid):
  return importlib.import_module("mlsim.props.%s" % pid.lower())


def _worker_init():
  from . import world
  world.EIGSH.install()
  try:
    world.pristine()       # forked now, before this worker has run anything
  except Exception:
    pass
  try:
    faulthandler.enable()
  except Exception:
    pass
  signal.signal(signal.SIGALRM, _alarm)
  signal.signal(signal.SIGPROF, _alarm)


def execute(pid, plan, keep_events=False):
  """Run one plan in a process of its own (forked from this one) and return its
  result; never raises.  One process per run means that nothing a run leaves
  behind in module-level state (of the library under test, of its dependencies
  or of the harness) can reach another run: a run stays a pure function of
  (plan, code) even for code that keeps process-global caches or registries."""
  if os.environ.get("MLSIM_NO_FORK"):
    return _execute_here(pid, plan, keep_events)
  import pickle
  from . import world
  try:
    world.pristine()        # forked from this (history-free) process, shared by its run processes
  except Exception:
    pass
  rfd, wfd = os.pipe()
  child = os.fork()
  if child == 0:
    code = 0
    try:
      os.close(rfd)
      res = _execute_here(pid, plan, keep_events)
      world._write_all(wfd, pickle.dumps(res, protocol=4))
    except BaseException:
      code = 1
    finally:
      os._exit(code)
  os.close(wfd)
  chunks = []
  while True:
    try:
      c = os.read(rfd, 1 << 20)
    except InterruptedError:
      continue
    if not c:
      break
    chunks.append(c)
  os.close(rfd)
  try:
    os.waitpid(child, 0)
  except Exception:
    pass
  try:
    return pickle.loads(b"".join(chunks))
  except Exception:
    return dict(harness_error="run process died without a result", violation=None, inconclusive=[],
                cov={}, shape="", nontrivial=False, digest="", wall=0.0, digests=[])


def _execute_here(pid, plan, keep_events=False):
  mod = prop_module(pid)
  from . import world
  world.EIGSH.install()
  world.EIGSH.mode = "seeded"
  world.EIGSH.seed = 12345
  try:
    world.pristine()        # must exist before the plan's history starts
  except Exception:
    pass
  import warnings
  warnings.simplefilter("ignore")   # oracles observe warnings explicitly
  t0 = time.time()
  # per-run limit in CPU seconds of this process (robust against a loaded
  # machine) plus a much longer wall-clock fallback for blocked runs
  old = signal.signal(signal.SIGALRM, _alarm)
  oldp = signal.signal(signal.SIGPROF, _alarm)
  signal.setitimer(signal.ITIMER_PROF, RUN_TIMEOUT_S, 1.0)   # re-fires every CPU second until it escapes
  signal.alarm(RUN_WALL_TIMEOUT_S)
  try:
    res = mod.run_plan(plan)
  except RunTimeout:
    res = dict(harness_error="timeout after %ds cpu / %ds wall" % (RUN_TIMEOUT_S, RUN_WALL_TIMEOUT_S))
  except Exception:
    res = dict(harness_error=traceback.format_exc()[-1500:])
  finally:
    signal.setitimer(signal.ITIMER_PROF, 0)
    signal.alarm(0)
    signal.signal(signal.SIGALRM, old)
    signal.signal(signal.SIGPROF, oldp)
  res.setdefault("violation", None)
  res.setdefault("inconclusive", [])
  res.setdefault("cov", {})
  res.setdefault("shape", "")
  res.setdefault("nontrivial", False)
  res.setdefault("digest", "")
  res["wall"] = time.time() - t0
  res["digests"] = _state_digests(res.get("events") or [])
  if not keep_events:
    res.pop("events", None)
  return res


def _state_digests(events):
  """Distinct SUT output / fitted-state digests reached by a run (a measure of
  the states explored, reported in the evidence)."""
  out = set()
  for e in events:
    if not isinstance(e, dict):
      continue
    for k in ("M", "out", "stream", "thr"):
      v = e.get(k)
      if isinstance(v, str) and v:
        out.add(v[:12])
    st = e.get("state")
    if isinstance(st, dict) and st.get("components_"):
      out.add(st["components_"][:12])
  return sorted(out)[:40]


def _task(args):
  pid, vseed, tier, indices, want_samples = args
  mod = prop_module(pid)
  out = []
  for i in indices:
    rs = run_seed(vseed, pid, i)
    try:
      signal.setitimer(signal.ITIMER_PROF, RUN_TIMEOUT_S, 1.0)
      try:
        plan = mod.gen_plan(rs, tier)
      finally:
        signal.setitimer(signal.ITIMER_PROF, 0)
    except (Exception, RunTimeout):
      out.append(dict(index=i, run_seed=rs,
                      harness_error="gen_plan: " + traceback.format_exc()[-1200:],
                      violation=None, inconclusive=[], cov={}, shape="",
                      nontrivial=False, digest="", wall=0.0))
      continue
    res = execute(pid, plan, keep_events=(i in want_samples))
    res["index"] = i
    res["run_seed"] = rs
    if res.get("violation") or res.get("harness_error") or i in want_samples:
      res["plan"] = plan
    out.append(res)
  return out


def explore(pid, vseed, tier, n_runs, jobs, budget_s, chunk=8, start=0, stop_on_violation=False):
  """Run indices start..start+n_runs-1 (or until the wall budget is spent)."""
  t0 = time.time()
  ctx = mp.get_context("fork")
  results = []
  want_samples = set(range(start, start + 3))
  idx = list(range(start, start + n_runs))
  chunks = [idx[i:i + chunk] for i in range(0, len(idx), chunk)]
  stopped_early = False
  with cf.ProcessPoolExecutor(max_workers=jobs, mp_context=ctx,
                              initializer=_worker_init) as ex:
    pending = {}
    it = iter(chunks)
    exhausted = False

    def submit_more():
      nonlocal exhausted
      while len(pending) < jobs * 2 and not exhausted:
        try:
          c = next(it)
        except StopIteration:
          exhausted = True
          break
        f = ex.submit(_task, (pid, vseed, tier, c, want_samples))
        pending[f] = c
    submit_more()
    hard_deadline = t0 + budget_s + RUN_WALL_TIMEOUT_S + 60
    while pending:
      done, _ = cf.wait(list(pending), timeout=5,
                        return_when=cf.FIRST_COMPLETED)
      for f in done:
        c = pending.pop(f)
        try:
          results.extend(f.result())
        except Exception:
          results.append(dict(index=c[0], run_seed=-1, violation=None,
                              harness_error="worker died: " +
                              traceback.format_exc()[-800:], inconclusive=[],
                              cov={}, shape="", nontrivial=False, digest="",
                              wall=0.0))
      if time.time() - t0 > budget_s:
        if not exhausted:
          stopped_early = True
        exhausted = True
      if stop_on_violation and any(r.get("violation") and (not callable(stop_on_violation) or
                                                              stop_on_violation(r["violation"]))
                                   for r in results):
        exhausted = True          # development mode: the first violation is enough
      if time.time() > hard_deadline:
        for f in pending:
          f.cancel()
        results.append(dict(index=-1, run_seed=-1, violation=None,
                            harness_error="batch exceeded hard deadline",
                            inconclusive=[], cov={}, shape="",
                            nontrivial=False, digest="", wall=0.0))
        ex.shutdown(wait=False, cancel_futures=True)
        break
      submit_more()
  results.sort(key=lambda r: r["index"])
  return results, stopped_early, time.time() - t0


# ------------------------------------------------------------ known findings

def load_known():
  p = os.path.join(VERIF, "known_findings.json")
  if not os.path.exists(p):
    return []
  with open(p) as f:
    return json.load(f)


def full_sig(pid, v):
  return "%s|%s|%s" % (pid, v["oracle"], v["sig"])


def match_known(pid, v, known):
  s = full_sig(pid, v)
  for k in known:
    if k.get("property") == pid and k.get("status") == "open":
      if fnmatch.fnmatchcase(s, k["signature"]):
        return k
  return None


# ------------------------------------------------------------------ shrinking

def shrink(pid, plan, violation, budget_s=60, max_exec=300):
  mod = prop_module(pid)
  target = full_sig(pid, violation)
  best, bestv = plan, violation
  t0 = time.time()
  n_exec = 0
  improved = True
  while improved and time.time() - t0 < budget_s and n_exec < max_exec:
    improved = False
    try:
      moves = mod.shrink_moves(best, bestv)
    except Exception:
      break
    for cand in moves:
      if time.time() - t0 > budget_s or n_exec >= max_exec:
        break
      if canon(cand) == canon(best):
        continue
      n_exec += 1
      r = execute(pid, cand)
      v = r.get("violation")
      if v and full_sig(pid, v) == target:
        best, bestv = cand, v
        improved = True
        break
  return best, bestv, n_exec


def repo_rev():
  try:
    rev = subprocess.run(["git", "-C", REPO, "rev-parse", "HEAD"],
                         capture_output=True, text=True, timeout=20).stdout.strip()
    diff = subprocess.run(["git", "-C", REPO, "diff", "HEAD"],
                          capture_output=True, text=True, timeout=20).stdout
    import hashlib
    return rev, hashlib.sha256(diff.encode()).hexdigest()[:12]
  except Exception:
    return "unknown", "unknown"


def write_replay(pid, plan, violation, run_seed_, n_shrink):
  d = os.path.join(VERIF, "replays", pid)
  os.makedirs(d, exist_ok=True)
  r = execute(pid, plan, keep_events=True)
  rev, dh = repo_rev()
  sig = full_sig(pid, violation)
  import hashlib
  name = "%d-%s.json" % (run_seed_, hashlib.sha256(sig.encode()).hexdigest()[:8])
  path = os.path.join(d, name)
  with open(path, "w") as f:
    f.write(canon(dict(property=pid, signature=sig, violation=violation,
                       run_seed=run_seed_, plan=plan, digest=r.get("digest"),
                       events=r.get("events"), shrink_executions=n_shrink,
                       repo_rev=rev, repo_diff=dh)))
  return path


# ------------------------------------------------------------------ self-test

def determinism_selftest(pid, vseed, tier, indices, digests):
  """Re-run the given run indices in a fresh interpreter with another hash
  seed and a single worker; the run digests must match exactly."""
  if not indices:
    return dict(checked=0, mismatches=[])
  env = dict(os.environ)
  env["PYTHONHASHSEED"] = "4242"
  env["VERIF_SEED"] = str(vseed)
  cmd = [sys.executable, "-m", "mlsim.replay", "--digests", pid, tier,
         ",".join(str(i) for i in indices)]
  p = subprocess.run(cmd, cwd=VERIF, env=env, capture_output=True, text=True,
                     timeout=600)
  if p.returncode != 0:
    return dict(checked=0, mismatches=[], error=(p.stderr or p.stdout)[-800:])
  got = json.loads(p.stdout.strip().splitlines()[-1])
  mism = [i for i in indices if got.get(str(i)) != digests.get(i)]
  return dict(checked=len(indices), mismatches=mism)


# ------------------------------------------------------------------ evidence

def aggregate(results):
  cov = collections.Counter()
  shapes = collections.Counter()
  inconc = collections.Counter()
  herr = []
  viol = []
  nontriv_shapes = set()
  states = set()
  for r in results:
    if len(states) < 200000:
      states.update(r.get("digests") or [])
    for k, v in r.get("cov", {}).items():
      cov[k] += v
    if r.get("harness_error"):
      herr.append(r)
      continue
    for reason in r.get("inconclusive", []):
      inconc[reason] += 1
    if r.get("shape"):
      shapes[r["shape"]] += 1
      if r.get("nontrivial"):
        nontriv_shapes.add(r["shape"])
    if r.get("violation"):
      viol.append(r)
  cov["__distinct_state_digests"] = len(states)
  return cov, shapes, nontriv_shapes, inconc, herr, viol


def fresh_eval(pid, plan, hashseed="31337"):
  """Run prop.fresh_eval(plan) in a fresh interpreter with another hash seed
  and a virgin global RNG; returns its JSON result (or raises)."""
  env = dict(os.environ)
  env["PYTHONHASHSEED"] = hashseed
  p = subprocess.run([sys.executable, "-m", "mlsim.fresheval", pid], cwd=VERIF, env=env,
                     input=json.dumps(plan), capture_output=True, text=True, timeout=120)
  if p.returncode != 0:
    raise RuntimeError("fresh interpreter failed: " + (p.stderr or "")[-400:])
  return json.loads(p.stdout.strip().splitlines()[-1])
