"""Seed derivation, digests and small helpers shared by every check."""
import hashlib
import json
import random
import struct

import numpy as np


# ---------------------------------------------------------------- seeds

def h64(*parts):
  """Stable 64-bit hash of the parts (never Python's hash())."""
  m = hashlib.sha256()
  for p in parts:
    m.update(repr(p).encode())
    m.update(b"\x00")
  return struct.unpack(">Q", m.digest()[:8])[0]


def run_seed(verif_seed, prop, index):
  return h64("run", int(verif_seed), str(prop), int(index)) & 0x7FFFFFFFFFFF


def substream(seed, *names):
  """A named PRNG sub-stream: adding draws to one does not shift the others."""
  return random.Random(h64("sub", int(seed), *names))


def np_stream(seed, *names):
  """Harness-side numpy generator (never handed to the system under test)."""
  return np.random.RandomState(h64("np", int(seed), *names) & 0xFFFFFFFF)


# ---------------------------------------------------------------- digests

def _upd(m, obj, depth=0):
  if depth > 6:
    m.update(b"<deep>")
    return
  if obj is None:
    m.update(b"N")
  elif isinstance(obj, (bool, np.bool_)):
    m.update(b"b1" if obj else b"b0")
  elif isinstance(obj, (int, np.integer)):
    m.update(b"i" + str(int(obj)).encode())
  elif isinstance(obj, (float, np.floating)):
    m.update(b"f" + float(obj).hex().encode())
  elif isinstance(obj, complex):
    m.update(b"c" + repr(obj).encode())
  elif isinstance(obj, str):
    m.update(b"s" + obj.encode())
  elif isinstance(obj, bytes):
    m.update(b"y" + obj)
  elif isinstance(obj, np.ndarray):
    m.update(b"a" + str(obj.dtype).encode() + str(obj.shape).encode())
    if obj.dtype == object:
      for x in obj.ravel().tolist():
        _upd(m, x, depth + 1)
    else:
      m.update(np.ascontiguousarray(obj).tobytes())
  elif isinstance(obj, (list, tuple)):
    m.update(b"l" if isinstance(obj, list) else b"t")
    m.update(str(len(obj)).encode())
    for x in obj:
      _upd(m, x, depth + 1)
  elif isinstance(obj, dict):
    m.update(b"d")
    for k in sorted(obj, key=repr):
      _upd(m, k, depth + 1)
      _upd(m, obj[k], depth + 1)
  elif hasattr(obj, "X") and type(obj).__name__ == "ArrayIndexer":
    m.update(b"AI")
    _upd(m, obj.X, depth + 1)
  elif hasattr(obj, "sim_digest"):
    m.update(b"S" + obj.sim_digest().encode())
  elif callable(obj):
    m.update(b"C" + type(obj).__name__.encode())
  else:
    m.update(b"O" + type(obj).__name__.encode())


def digest(obj):
  m = hashlib.sha256()
  _upd(m, obj)
  return m.hexdigest()[:16]


def fitted_state(est):
  """Name -> value of every fitted attribute (trailing underscore)."""
  return {k: v for k, v in vars(est).items()
          if k.endswith("_") and not k.startswith("__")}


def state_digest(est):
  st = fitted_state(est)
  return {k: digest(v) for k, v in sorted(st.items())}


def canon(obj):
  return json.dumps(obj, sort_keys=True, separators=(",", ":"), default=_jd)


def _jd(o):
  if isinstance(o, np.ndarray):
    return o.tolist()
  if isinstance(o, (np.integer,)):
    return int(o)
  if isinstance(o, (np.floating,)):
    return float(o)
  if isinstance(o, (np.bool_,)):
    return bool(o)
  return repr(o)


def log_digest(events):
  return hashlib.sha256(canon(events).encode()).hexdigest()[:24]


# ---------------------------------------------------------------- numerics

def rel_err(a, b):
  a = np.asarray(a, dtype=float)
  b = np.asarray(b, dtype=float)
  if a.shape != b.shape:
    return float("inf")
  if a.size == 0:
    return 0.0
  if not (np.isfinite(a).all() and np.isfinite(b).all()):
    return 0.0 if np.array_equal(a, b, equal_nan=False) else float("inf")
  den = np.linalg.norm(a) + np.linalg.norm(b)
  if den == 0:
    return 0.0
  return float(np.linalg.norm(a - b) / den)


def ulp_close(a, b, ulps=1):
  """Elementwise equality within `ulps` units in the last place."""
  a = np.asarray(a, dtype=float)
  b = np.asarray(b, dtype=float)
  if a.shape != b.shape:
    return False
  if a.size == 0:
    return True
  same = (a == b)
  tol = ulps * np.spacing(np.maximum(np.abs(a), np.abs(b)))
  with np.errstate(invalid="ignore"):
    ok = same | (np.abs(a - b) <= tol)
  return bool(np.all(ok))


class Violation(Exception):
  """Raised by an oracle. `sig` must be short and stable."""

  def __init__(self, oracle, sig, detail):
    Exception.__init__(self, "%s [%s] %s" % (oracle, sig, detail))
    self.oracle = oracle
    self.sig = sig
    self.detail = detail


class RunTimeout(BaseException):
  """Per-run wall timeout (SIGALRM).  BaseException so that the blanket
  `except Exception` around SUT calls cannot swallow it."""


class Inconclusive(Exception):
  def __init__(self, reason):
    Exception.__init__(self, reason)
    self.reason = reason
