"""Dataset synthesis from JSON descriptors (harness-side randomness only)."""
import numpy as np

from .core import np_stream


class Data(object):
  """A backing point store S (N x d) with labels, a training subset pidx and
  tuples expressed as indices into S."""
  pass


def _mix(rs, d, cond):
  if d == 1:
    return np.array([[1.0]])
  Q, _ = np.linalg.qr(rs.randn(d, d))
  s = np.exp(np.linspace(0.0, np.log(cond), d))
  rs.shuffle(s)
  Q2, _ = np.linalg.qr(rs.randn(d, d))
  return (Q * s).dot(Q2)


def _make_view(desc, live_base=None):
  """A dataset whose point store is a *slice* of another dataset's store
  (`base.S[start:]`, sharing memory with it when the live base is given): the
  train / validation split of one array, as a user would write it."""
  base = live_base if live_base is not None else make_data(desc["view_of"])
  start = int(desc["start"])
  D = Data()
  D.desc = desc
  D.S = base.S[start:]
  yS = base.yS0[start:]
  D.N, D.n, D.d, D.classes = base.N - start, base.n - start, base.d, base.classes
  return _finish(D, desc, yS.astype(int))


def make_data(desc, live_base=None):
  """desc: kind in {blobs, grid, lowrank}, seed, n, d, classes, extra (extra
  store rows not used for training), unknown (fraction of -1 labels in
  y_partial), tuples (number of tuples), scale (log10 range of feature
  scales), sep (class separation)."""
  if desc.get("view_of"):
    return _make_view(desc, live_base)
  kind = desc.get("kind", "blobs")
  seed = desc["seed"]
  n, d, c = int(desc["n"]), int(desc["d"]), int(desc.get("classes", 2))
  extra = int(desc.get("extra", 0))
  N = n + extra
  rs = np_stream(seed, "points")
  yS = np.arange(N) % c
  if desc.get("class_sizes"):   # explicit (unbalanced) class sizes, sum == n
    yS[:n] = np.repeat(np.arange(c), desc["class_sizes"])
  rs.shuffle(yS[:n])          # training part keeps balanced classes
  if extra:
    rs.shuffle(yS[n:])
  if kind == "grid":
    g = int(desc.get("grid", 3))
    S = rs.randint(0, g, size=(N, d)).astype(float)
    S += (yS[:, None] * (np.arange(d)[None, :] % 2)).astype(float)
  else:
    sep = float(desc.get("sep", 2.0))
    centers = rs.randn(c, d) * sep
    S = centers[yS] + rs.randn(N, d)
    if kind == "lowrank" and d >= 2:
      S[:, -1] = S[:, 0] * 2.0 - (S[:, 1] if d > 2 else 0.0)
    A = _mix(rs, d, float(desc.get("cond", 10.0)))
    S = S.dot(A)
    sc = float(desc.get("scale", 0.0))
    if sc:
      S = S * 10.0 ** rs.uniform(-sc, sc, size=d)
    S = S + rs.randn(d) * float(desc.get("offset", 1.0))
    if desc.get("global_scale"):
      S = S * float(desc["global_scale"])
  if desc.get("int_dtype"):     # integer-valued measurements kept in an integer dtype
    S = np.round(S * 100.0)
  if desc.get("int_rows"):      # some rows hold whole numbers only
    ri = np_stream(seed, "int-rows")
    mk = ri.rand(N) < float(desc["int_rows"])
    S[mk] = np.round(S[mk])
  if desc.get("dups"):          # identical rows at different indices
    rd = np_stream(seed, "dups")
    for _ in range(int(desc["dups"])):
      i, j = rd.randint(0, N, size=2)
      S[i] = S[j]
  D = Data()
  D.desc = desc
  D.S = np.ascontiguousarray(S, dtype=np.int64 if desc.get("int_dtype") else float)
  D.N, D.n, D.d, D.classes = N, n, d, c
  return _finish(D, desc, yS.astype(int))


def _finish(D, desc, yS):
  seed = desc["seed"]
  n, d, c = D.n, D.d, D.classes
  D.yS = yS
  D.pidx = np.arange(n)
  if desc.get("perm"):
    D.pidx = np_stream(seed, "perm").permutation(n)
  D.X = D.S[D.pidx]
  D.yS0 = D.yS.copy()
  D.y0 = D.yS0[D.pidx]
  stride, off = int(desc.get("label_stride", 1)), int(desc.get("label_offset", 0))
  if stride != 1 or off != 0:
    D.yS = D.yS0 * stride + off
  D.y = D.yS[D.pidx]
  # partial labels: unknown (-1) at arbitrary positions, every class keeps >= 4
  # (or as many as it has) known members
  D.y_partial = D.y.copy()
  unk = float(desc.get("unknown", 0.0))
  if unk > 0:
    ru = np_stream(seed, "unknown")
    order = ru.permutation(n)
    keep_min = int(desc.get("keep_min", 4))
    counts = np.bincount(D.y0, minlength=c)
    target = int(round(unk * n))
    k = 0
    for i in order:
      if k >= target:
        break
      if counts[D.y0[i]] > keep_min:
        D.y_partial[i] = int(ru.choice(desc.get("neg_values", [-1])))
        counts[D.y0[i]] -= 1
        k += 1
  # regression targets
  rr = np_stream(seed, "reg")
  wreg = rr.randn(d)
  D.yreg = D.X.dot(wreg) / (np.abs(D.X).max() + 1e-12) + 0.1 * rr.randn(n)
  m = int(desc.get("tuples", 0))
  if m:
    _make_tuples(D, m, seed)
  _make_chunks(D, seed)
  return D


def _distinct(S, i, j):
  # not a collapsed pair: metric-learn's own test is |x - x'| < 1e-9
  return np.linalg.norm(S[i] - S[j]) > 1e-6 * min(1.0, 1e3 * (np.abs(S).max() + 1e-300)) + 1e-8


def _make_tuples(D, m, seed):
  rs = np_stream(seed, "tuples")
  S, y, idx = D.S, D.yS, D.pidx
  by = {}
  for i in idx:
    by.setdefault(int(y[i]), []).append(int(i))
  classes = sorted(by)

  def same(a=None):
    for _ in range(200):
      c = classes[rs.randint(len(classes))] if a is None else int(y[a])
      mem = by[c]
      if len(mem) < 2:
        continue
      i = mem[rs.randint(len(mem))] if a is None else a
      j = mem[rs.randint(len(mem))]
      if i != j and _distinct(S, i, j):
        return i, j
    return None

  def diff(a=None):
    for _ in range(200):
      i = int(idx[rs.randint(len(idx))]) if a is None else a
      j = int(idx[rs.randint(len(idx))])
      if y[i] != y[j] and _distinct(S, i, j):
        return i, j
    return None

  pairs, py = [], []
  for t in range(m):
    pos = (t % 2 == 0) if t < 4 else (rs.rand() < 0.5)
    p = same() if pos else diff()
    if p is None:
      continue
    pairs.append(p)
    py.append(1 if pos else -1)
  D.pairs_idx = np.array(pairs, dtype=int).reshape(-1, 2)
  D.pairs_y = np.array(py, dtype=int)
  if D.desc.get("one_class_pairs"):      # a pair set that happens to hold one kind of pair only
    keep = D.pairs_y == int(D.desc["one_class_pairs"])
    if keep.sum() >= 4:
      D.pairs_idx, D.pairs_y = D.pairs_idx[keep], D.pairs_y[keep]
  trip = []
  quad = []
  for t in range(m):
    s = same()
    if s is None:
      continue
    a, b = s
    dd = diff(a)
    if dd is not None:
      trip.append((a, b, dd[1]))
    dq = diff()
    if dq is not None:
      quad.append((a, b, dq[0], dq[1]))
  D.triplets_idx = np.array(trip, dtype=int).reshape(-1, 3)
  D.quads_idx = np.array(quad, dtype=int).reshape(-1, 4)


def _make_chunks(D, seed):
  """Chunklets for RCA: same-class groups of 2-4 training points; some points
  stay unchunked (-1)."""
  rs = np_stream(seed, "chunks")
  n = D.n
  chunks = -np.ones(n, dtype=int)
  cid = 0
  for c in range(D.classes):
    mem = np.where(D.y0 == c)[0]
    mem = mem[rs.permutation(len(mem))]
    p = 0
    while p + 2 <= len(mem):
      sz = int(min(len(mem) - p, rs.randint(2, 5)))
      if len(mem) - p - sz == 1:
        sz += 1
      if rs.rand() < 0.15 and cid > D.d:      # leave a few points unchunked
        p += 1
        continue
      chunks[mem[p:p + sz]] = cid
      cid += 1
      p += sz
  how = D.desc.get("chunk_ids")
  if how and cid:
    # chunklet ids are arbitrary non-negative integers (one-based, gaps, any order)
    r2 = np_stream(seed, "chunk-ids")
    new = np.arange(cid)
    if how == "onebased":
      new = new + 1
    elif how in ("gaps", "gaps_shuffled"):
      new = np.cumsum(r2.randint(1, 4, size=cid))
    if how in ("shuffled", "gaps_shuffled"):
      new = r2.permutation(new)
    out = chunks.copy()
    for a in range(cid):
      out[chunks == a] = new[a]
    chunks = out
  D.chunks = chunks
  D.n_chunks = cid


def formed(D, idx):
  return D.S[np.asarray(idx)]
