"""CLI of every registered check.

  python -m mlsim.check <ID> --tier quick|thorough

Exit 0: property held on everything explored (known findings are printed as
KNOWN-FINDING lines).  Exit 1: `VIOLATION property=<id> replay=<path>`.
Exit 2: HARNESS-ERROR (never reported as success)."""
import argparse
import json
import os
import sys
import time

from . import REPO, VERIF, GUARD
from . import runner
from .core import canon

TIERS = {
    # (target runs, wall budget seconds, determinism sample)
    "quick": dict(runs=400, budget=40, det=12),
    "thorough": dict(runs=20000, budget=540, det=120),
}


def main(argv=None):
  ap = argparse.ArgumentParser()
  ap.add_argument("prop")
  ap.add_argument("--tier", default=os.environ.get("VERIF_TIER", "quick"))
  ap.add_argument("--runs", type=int, default=None)
  ap.add_argument("--budget", type=float, default=None)
  ap.add_argument("--start", type=int, default=0)
  ap.add_argument("--no-selftest", action="store_true")
  ap.add_argument("--no-evidence", action="store_true")
  ap.add_argument("--no-shrink", action="store_true", help="development: report violations without minimising them")
  ap.add_argument("--first", action="store_true", help="development: stop exploring at the first violation")
  a = ap.parse_args(argv)
  pid = a.prop.upper()
  tier = a.tier if a.tier in TIERS else "quick"
  vseed = int(os.environ.get("VERIF_SEED", "0") or 0)
  jobs = int(os.environ.get("VERIF_JOBS", "16") or 16)
  mod = runner.prop_module(pid)
  cfg = dict(TIERS[tier])
  cfg.update(getattr(mod, "TIERS", {}).get(tier, {}))
  n_runs = a.runs or cfg["runs"]
  budget = a.budget or cfg["budget"]
  t0 = time.time()
  print("mlsim check %s tier=%s VERIF_SEED=%d jobs=%d repo=%s runs<=%d budget=%ss"
        % (pid, tier, vseed, jobs, REPO, n_runs, budget), flush=True)

  results, stopped_early, wall = runner.explore(
      pid, vseed, tier, n_runs, jobs, budget, chunk=cfg.get("chunk", 8),
      start=a.start,
      stop_on_violation=(lambda v: runner.match_known(pid, v, runner.load_known()) is None) if a.first else False)
  cov, shapes, nontriv, inconc, herr, viol = runner.aggregate(results)
  n_ok = len(results) - len(herr)

  # ---- violations: known findings, shrinking, replay files
  known = runner.load_known()
  exit_code = 0
  seen_sig = {}
  known_hit = {}
  for r in viol:
    v = r["violation"]
    s = runner.full_sig(pid, v)
    k = runner.match_known(pid, v, known)
    if k is not None:
      known_hit.setdefault(k["signature"], [k, 0])[1] += 1
      continue
    seen_sig.setdefault(s, []).append(r)
  for sig, (k, cnt) in sorted(known_hit.items()):
    print("KNOWN-FINDING: property=%s %s (signature %s, %d runs)"
          % (pid, k["what"], sig, cnt))
  n_new = 0
  for s, rs in sorted(seen_sig.items()):
    n_new += 1
    if n_new > 6:
      print("(further distinct violation signature, not shrunk: %s :: %s)"
            % (s, str(rs[0]["violation"].get("detail"))[:300]))
      continue
    r = min(rs, key=lambda x: len(canon(x.get("plan", {}))))
    if a.no_shrink:
      plan, v, nex = r["plan"], r["violation"], 0
    else:
      plan, v, nex = runner.shrink(pid, r["plan"], r["violation"],
                                   budget_s=cfg.get("shrink_s", 45))
    path = runner.write_replay(pid, plan, v, r["run_seed"], nex)
    print("VIOLATION property=%s replay=%s" % (pid, path))
    print("  signature: %s" % s)
    print("  detail: %s" % str(v.get("detail"))[:600])
    print("  seen in %d run(s); first run index %d (run_seed %d); shrink executions %d"
          % (len(rs), rs[0]["index"], rs[0]["run_seed"], nex))
    exit_code = 1

  # ---- harness errors / inconclusive ceiling
  harness_msgs = []
  if herr:
    harness_msgs.append("%d run(s) ended in a harness error; first (run index %s, run_seed %s): %s"
                        % (len(herr), herr[0].get("index"), herr[0].get("run_seed"),
                           str(herr[0].get("harness_error"))[-700:]))
    try:      # keep the plan for diagnosis
      d_ = os.path.join(VERIF, "replays", pid)
      os.makedirs(d_, exist_ok=True)
      with open(os.path.join(d_, "harness-%s.json" % herr[0].get("run_seed")), "w") as f:
        f.write(canon(dict(property=pid, harness_error=herr[0].get("harness_error"),
                           run_seed=herr[0].get("run_seed"), index=herr[0].get("index"),
                           tier=tier, verif_seed=vseed, plan=herr[0].get("plan"))))
    except Exception:
      pass
  ceiling = getattr(mod, "INCONCLUSIVE_CEILING", 0.01)
  n_inc_runs = sum(1 for r in results if r.get("inconclusive"))
  if n_ok and n_inc_runs / float(n_ok) > ceiling:
    harness_msgs.append("inconclusive runs %d/%d exceed ceiling %.3f: %s"
                        % (n_inc_runs, n_ok, ceiling, dict(inconc)))
  if n_ok < max(10, cfg.get("min_runs", 20)):
    harness_msgs.append("only %d runs completed" % n_ok)

  # ---- determinism self-test
  det = dict(checked=0, mismatches=[], skipped=True)
  if not a.no_selftest and n_ok:
    good = [r for r in results if not r.get("harness_error")]
    step = max(1, len(good) // cfg["det"])
    sample = good[::step][:cfg["det"]]
    digs = {r["index"]: r["digest"] for r in sample}
    det = runner.determinism_selftest(pid, vseed, tier, sorted(digs), digs)
    if det.get("error"):
      harness_msgs.append("determinism self-test failed to run: %s" % det["error"])
    elif det["mismatches"]:
      harness_msgs.append("determinism self-test: run digests differ in a fresh "
                          "interpreter for run indices %s" % det["mismatches"])

  wall = time.time() - t0
  # ---- evidence
  if not a.no_evidence:
    samples = []
    for r in results:
      if "plan" in r and not r.get("violation") and not r.get("harness_error"):
        ev = r.get("events") or []
        samples.append(dict(run_index=r["index"], run_seed=r["run_seed"],
                            plan=r["plan"], events=ev[:40],
                            digest=r["digest"]))
      if len(samples) >= 2:
        break
    if not samples:
      samples = [dict(note="no clean sample run available")]
    rate = n_ok / wall * 3600 if wall > 0 else 0
    fk = {}

    def _fk(name, **parts):
      d = {k: int(cov.get(v, 0)) for k, v in parts.items() if v in cov}
      if any(d.values()):
        fk[name] = d
    _fk("preprocessor raises at its k-th call (10 exception types)", armed="faults_armed", fired="faults_fired")
    _fk("fit interrupted at a drawn metric-learn line event (KeyboardInterrupt / MemoryError)",
        armed="interrupts_armed", fired="interrupts_fired", swallowed_by_library="interrupts_swallowed")
    _fk("graphical-lasso solver stub (raises / returns NaN, inf, indefinite, slightly negative)", fired="glasso_stub_fired")
    _fk("ARPACK eigsh: forced ArpackNoConvergence", fired="eigsh_forced_noconv", eigsh_calls="eigsh_calls")
    _fk("dense symmetric eigensolver (scipy.linalg.eigh called from lfda): forced LinAlgError",
        fired="eigh_forced_linalgerror")
    _fk("process restart (pickle round trip, same process)", fired="restart_inproc")
    _fk("process restart (fresh interpreter, other PYTHONHASHSEED)", fired="restart_fresh")
    _fk("fresh-interpreter repetition of seeded calls", fired="fresh_process_checked")
    _fk("reference computed in a brand-new interpreter (other hash salt, virgin global state)",
        reference_fits="reference_fits_in_fresh_interpreter", random_matrices="random_fresh_process_checked")
    _fk("caller passes the same argument arrays to every fit", runs="same_arrays_for_every_fit")
    _fk("overflowing tuple inside a query batch", batches="batches_with_overflowing_tuple")
    _fk("ambient RNG / global state perturbation", fired="op_ambient")
    _fk("simulated clock jumps (forwards and backwards)", fired="clock_jumps", clock_reads="clock_reads")
    for k_ in sorted(cov):
      if k_.startswith("fault_") and not k_.startswith(("fault_at_call", "fault_exc_", "fault_fired_in")):
        fk.setdefault("graphical-lasso stub: failure modes", {})[k_[len("fault_"):]] = int(cov[k_])
      if k_.startswith("draw_program_"):
        fk.setdefault("PRNG draw programs (int seed / recording / scripted)", {})[k_[len("draw_program_"):]] = int(cov[k_])
      if k_.startswith("fault_exc_"):
        fk.setdefault("preprocessor exception types fired", {})[k_[len("fault_exc_"):]] = int(cov[k_])
    evidence = dict(
        property_id=pid, tier=tier, seed=vseed, level="exploration",
        wall_s=round(wall, 2),
        violations=len(seen_sig),
        coverage=dict(
            evaluations=n_ok,
            distinct_nontrivial=len(nontriv),
            rule=getattr(mod, "RULE", ""),
            samples=samples,
            distinct_run_shapes=len(shapes),
            distinct_state_digests=int(cov.pop("__distinct_state_digests", 0)),
            distinct_state_digests_note="distinct digests of learned models / outputs / draw streams reached "
                                        "across the batch (capped at 200000)",
            runs_per_hour=int(rate),
            stopped_by_wall_budget=bool(stopped_early),
            counters=dict(sorted(cov.items())),
            fault_kinds_injected=fk,
            fault_kinds_note="how often each fault / perturbation kind actually fired inside an operation in "
                             "this run (not merely configured); kinds this property's simulator does not use are absent",
            inconclusive=dict(inconc),
            inconclusive_runs=n_inc_runs,
            harness_errors=len(herr),
            known_findings_seen={k: c for k, (_, c) in known_hit.items()},
            new_violation_signatures=sorted(seen_sig),
            determinism_selftest=det,
            real_vs_stub=getattr(mod, "REAL_VS_STUB", {}),
            simulated_time_note=("metric-learn has no timers: 'simulated time' is "
                                 "ops executed and simulated clock reads served; "
                                 "see counters ops / clock_reads"),
        ),
        assumptions=getattr(mod, "ASSUMPTIONS", []) + [
            "BLAS pinned to one thread; numpy/scipy/scikit-learn are the real "
            "installed libraries", "repository code loaded from %s working tree; "
            "guard %s is unused (no source hooks)" % (REPO, GUARD)],
    )
    os.makedirs(os.path.join(VERIF, "evidence"), exist_ok=True)
    with open(os.path.join(VERIF, "evidence", "%s.json" % pid), "w") as f:
      json.dump(evidence, f, indent=1, sort_keys=True, default=repr)

  print("runs=%d ok=%d nontrivial_shapes=%d inconclusive_runs=%d harness_errors=%d "
        "violations(new sigs)=%d known=%d wall=%.1fs (%.0f runs/h)"
        % (len(results), n_ok, len(nontriv), n_inc_runs, len(herr),
           len(seen_sig), len(known_hit), wall, n_ok / max(wall, 1e-9) * 3600))
  if exit_code == 1:
    return 1
  if harness_msgs:
    for m in harness_msgs:
      print("HARNESS-ERROR: %s" % m)
    return 2
  return 0


if __name__ == "__main__":
  sys.exit(main())
