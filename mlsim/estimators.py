"""Registry of the 17 estimators: what they are fitted on, how their
hyper-parameters are drawn (inside documented ranges) and how a plan's
descriptors are turned into real constructor / fit arguments."""
import numpy as np

from . import load_sut
from .core import np_stream, canon

load_sut()
import metric_learn as ml  # noqa: E402

# kind: what fit takes. tuple: tuple size for tuple learners.
SPEC = {
    "Covariance": dict(kind="X"),
    "LFDA": dict(kind="Xy"),
    "LMNN": dict(kind="Xy"),
    "NCA": dict(kind="Xy"),
    "MLKR": dict(kind="Xyreg"),
    "RCA": dict(kind="Xchunks"),
    "RCA_Supervised": dict(kind="Xy", sup=True),
    "ITML": dict(kind="pairs", tuple=2),
    "ITML_Supervised": dict(kind="Xy", sup=True),
    "MMC": dict(kind="pairs", tuple=2),
    "MMC_Supervised": dict(kind="Xy", sup=True),
    "SDML": dict(kind="pairs", tuple=2),
    "SDML_Supervised": dict(kind="Xy", sup=True),
    "LSML": dict(kind="quads", tuple=4),
    "LSML_Supervised": dict(kind="Xy", sup=True),
    "SCML": dict(kind="triplets", tuple=3),
    "SCML_Supervised": dict(kind="Xy", sup=True),
}
ALL = list(SPEC)
PAIRS = ["ITML", "MMC", "SDML"]
TUPLE_LEARNERS = ["ITML", "MMC", "SDML", "SCML", "LSML"]
POINT_LEARNERS = [c for c in ALL if SPEC[c].get("tuple") is None]
SUPERVISED = [c for c in ALL if SPEC[c].get("sup")]


def cls_of(name):
  return getattr(ml, name)


def tuple_size(name):
  return SPEC[name].get("tuple")


# --------------------------------------------------------------- array params

def _layout(A, lay):
  """The same numbers under another legal memory layout."""
  if lay == "F":
    return np.asfortranarray(A)
  if lay == "view":          # non-contiguous view into a larger buffer
    big = np.zeros((2 * A.shape[0], 2 * A.shape[1]), dtype=A.dtype)
    big[::2, ::2] = A
    return big[::2, ::2]
  return A


def gen_layout(r, p=0.3):
  return r.choice(["F", "F", "view"]) if r.random() < p else None


def make_array(desc):
  """Array-valued hyper-parameters / fit extras from a descriptor."""
  if desc.get("layout") and desc["kind"] in ("spd", "lin", "basis"):
    d2 = dict(desc)
    lay = d2.pop("layout")
    return _layout(make_array(d2), lay)
  k = desc["kind"]
  rs = np_stream(desc.get("seed", 0), "arr", k)
  if k == "spd" and desc.get("cond"):
    # SPD with a prescribed (possibly very wide) spectrum: 1 .. cond
    d = desc["d"]
    Q, _ = np.linalg.qr(rs.randn(d, d))
    w = 10.0 ** rs.uniform(0.0, np.log10(float(desc["cond"])), size=d)
    w[0], w[-1] = 1.0, float(desc["cond"])
    M = (Q * w).dot(Q.T)
    return (M + M.T) / 2 * float(desc.get("scale", 1.0))
  if k == "spd":
    d = desc["d"]
    A = rs.randn(d, d)
    M = A.dot(A.T) / d + np.eye(d) * float(desc.get("ridge", 0.5))
    M = (M + M.T) / 2
    return M * float(desc.get("scale", 1.0))
  if k == "lin":           # (k, d) transformation init
    return rs.randn(desc["k"], desc["d"])
  if k == "basis":         # (n_basis, d) unit-norm rows
    B = rs.randn(desc["nb"], desc["d"])
    if desc.get("unit", True):
      B /= np.linalg.norm(B, axis=1, keepdims=True)
    return B
  if k == "bounds":
    v = [float(desc["lo"]), float(desc["hi"])]
    a = desc.get("as", "ndarray")
    if a == "list":
      return list(v)
    if a == "tuple":
      return tuple(v)
    if a == "column":
      return np.array(v).reshape(2, 1)
    if a == "int":
      return np.array([int(max(1, round(v[0]))), int(max(2, round(v[1])))])
    return np.array(v)
  if k == "weights":
    w = rs.uniform(0.2, 3.0, size=desc["m"]) * float(desc.get("scale", 1.0))
    if desc.get("as") == "list":
      return [float(x) for x in w]
    if desc.get("as") == "int":
      return np.arange(1, desc["m"] + 1)
    return w
  raise ValueError("unknown array kind %r" % k)


def is_arr(v):
  return isinstance(v, dict) and "$arr" in v


class Resolver(object):
  """Turns descriptors into live objects; equal descriptors give the *same*
  object (aliasing between handles is deliberate)."""

  def __init__(self):
    self.cache = {}

  def get(self, v):
    if is_arr(v):
      key = canon(v)
      if key not in self.cache:
        self.cache[key] = make_array(v["$arr"])
      return self.cache[key]
    return v

  def params(self, p):
    return {k: self.get(v) for k, v in p.items()}

  def arrays(self):
    return self.cache


# ----------------------------------------------------------- param generation

def _seed(r):
  v = r.randrange(0, 10**6)
  return 0 if v % 16 == 0 else v      # the integer seed 0 is as legal as any other (and falsy)


def _ncomp(r, d, p_none=0.5):
  if r.random() < p_none:
    return None
  return r.randint(1, d)


def _init_lin(r, d, n_components, n_classes, has_classes=True, arr_p=0.2):
  k = d if n_components is None else n_components
  opts = ["auto", "pca", "identity", "random"]
  if has_classes and k <= n_classes - 1:
    opts.append("lda")
  if r.random() < arr_p:
    a = dict(kind="lin", seed=_seed(r), k=k, d=d)
    lay = gen_layout(r)
    if lay:
      a["layout"] = lay
    return {"$arr": a}
  return r.choice(opts)


def _prior(r, d, arr_p=0.2, allow_cov=True):
  if r.random() < arr_p:
    a = dict(kind="spd", seed=_seed(r), d=d)
    lay = gen_layout(r)
    if lay:
      a["layout"] = lay
    return {"$arr": a}
  opts = ["identity", "random"] + (["covariance"] if allow_cov else [])
  return r.choice(opts)


def gen_params(name, r, meta, light=True):
  """Draw documented hyper-parameters for estimator `name`.

  meta: dict(d, n, classes, min_class, n_tuples).  `light` keeps iteration
  budgets small (the properties quantify over every budget)."""
  d, n, c = meta["d"], meta["n"], meta["classes"]
  minc = meta.get("min_class", max(2, n // max(c, 1)))
  p = {}
  if name == "Covariance":
    return p
  if name == "LFDA":
    p["n_components"] = _ncomp(r, d)
    # k >= n_features is legal (documented warning, clipped to d - 1)
    p["k"] = r.choice([None, None] + list(range(1, max(2, d))) + [d, d + 2])
    p["embedding_type"] = r.choice(["weighted", "orthonormalized", "plain"])
    return p
  if name == "LMNN":
    p["n_components"] = _ncomp(r, d)
    p["init"] = _init_lin(r, d, p["n_components"], c)
    p["n_neighbors"] = r.randint(1, max(1, min(3, minc - 1)))
    p["max_iter"] = r.choice([2, 3, 5, 10, 25])
    p["min_iter"] = r.choice([0, 3, 50])
    p["learn_rate"] = r.choice([1e-7, 1e-6, 1e-5])
    p["regularization"] = r.choice([0.1, 0.5, 0.9])
    p["random_state"] = _seed(r)
    return p
  if name == "NCA":
    p["n_components"] = _ncomp(r, d)
    p["init"] = _init_lin(r, d, p["n_components"], c)
    p["max_iter"] = r.choice([0, 1, 3, 10, 30])
    if r.random() < 0.3:
      p["tol"] = r.choice([1e-3, 1e-6])
    p["random_state"] = _seed(r)
    return p
  if name == "MLKR":
    p["n_components"] = _ncomp(r, d)
    p["init"] = _init_lin(r, d, p["n_components"], c, has_classes=False)
    p["max_iter"] = r.choice([0, 1, 3, 10, 30])
    p["random_state"] = _seed(r)
    return p
  if name == "RCA":
    p["n_components"] = _ncomp(r, d)
    return p
  if name == "RCA_Supervised":
    p["n_components"] = _ncomp(r, d)
    cs = r.choice([2, 2, 3])
    maxchunks = c * (minc // cs)
    need = -(-(d + 2) // (cs - 1))
    p["chunk_size"] = cs
    p["n_chunks"] = max(1, min(maxchunks, need + r.randint(0, 6)))
    p["random_state"] = _seed(r)
    return p
  if name in ("ITML", "ITML_Supervised"):
    p["gamma"] = r.choice([0.1, 1.0, 1.0, 10.0])
    p["max_iter"] = r.choice([1, 2, 5, 20, 60])
    p["tol"] = r.choice([1e-3, 1e-2, 1e-5])
    p["prior"] = _prior(r, d)
    p["random_state"] = _seed(r)
  elif name in ("MMC", "MMC_Supervised"):
    p["max_iter"] = r.choice([1, 2, 3, 6, 12])
    p["tol"] = r.choice([1e-3, 1e-2])
    p["init"] = _prior(r, d)
    p["random_state"] = _seed(r)
  elif name in ("SDML", "SDML_Supervised"):
    p["balance_param"] = r.choice([0.01, 0.05, 0.2])
    p["sparsity_param"] = r.choice([0.005, 0.01, 0.1, 0.5])
    p["prior"] = _prior(r, d)
    p["random_state"] = _seed(r)
  elif name in ("LSML", "LSML_Supervised"):
    p["tol"] = r.choice([1e-3, 1e-2, 1e-5])
    p["max_iter"] = r.choice([1, 2, 5, 20, 60])
    p["prior"] = _prior(r, d)
    p["random_state"] = _seed(r)
  elif name in ("SCML", "SCML_Supervised"):
    p["beta"] = r.choice([1e-5, 1e-3, 1e-2])
    p["gamma"] = r.choice([5e-3, 5e-2, 0.5])
    oi = r.choice([1, 3, 10, 25])
    p["output_iter"] = oi
    p["max_iter"] = oi * r.randint(1, 6) + r.choice([0, 0, 1, 2])
    p["batch_size"] = r.choice([1, 3, 10])
    p["random_state"] = _seed(r)
    if name == "SCML":
      if r.random() < 0.35:
        nb = r.randint(max(2, d), 3 * d + 2)
        p["basis"] = {"$arr": dict(kind="basis", seed=_seed(r), nb=nb, d=d)}
        lay = gen_layout(r)
        if lay:
          p["basis"]["$arr"]["layout"] = lay
      else:
        p["basis"] = "triplet_diffs"
        p["n_basis"] = r.choice([None, d, 2 * d, 3 * d + 1])
    else:
      if r.random() < 0.35:
        nb = r.randint(max(2, d), 3 * d + 2)
        p["basis"] = {"$arr": dict(kind="basis", seed=_seed(r), nb=nb, d=d)}
        lay = gen_layout(r)
        if lay:
          p["basis"]["$arr"]["layout"] = lay
      else:
        p["basis"] = "lda"
        num_eig = min(c - 1, d)
        hi = max(2, min(20 * d, n * 2 * num_eig - 1))
        p["n_basis"] = r.choice([None, min(hi, d + 1), min(hi, 2 * d),
                                 min(hi, 3 * d + 1)])
      p["k_genuine"] = r.randint(1, max(1, min(3, minc - 1)))
      p["k_impostor"] = r.randint(1, 4)
  if name.endswith("_Supervised") and name not in ("SCML_Supervised",
                                                   "RCA_Supervised"):
    p["n_constraints"] = r.choice([None, 10, 25, 60])
  return p


def default_meta(D):
  counts = np.bincount(D.y0, minlength=D.classes)
  return dict(d=D.d, n=D.n, classes=D.classes, min_class=int(counts.min()),
              n_tuples=len(getattr(D, "pairs_idx", [])))


# ------------------------------------------------------------------- fit args

def fit_args(name, D, via="formed", y_kind="full"):
  """Positional arguments of fit for estimator `name` on dataset D.

  via='formed': arrays of points / tuples; via='indices': indicator arrays
  that need the store D.S as preprocessor."""
  kind = SPEC[name]["kind"]
  if kind in ("X", "Xy", "Xyreg", "Xchunks"):
    X = D.pidx.copy() if via == "indices" else D.X.copy()
    if kind == "X":
      return (X,)
    if kind == "Xy":
      y = D.y_partial if (y_kind == "partial" and SPEC[name].get("sup")) else D.y
      return (X, y.copy())
    if kind == "Xyreg":
      return (X, D.yreg.copy())
    return (X, D.chunks.copy())
  if kind == "pairs":
    T = D.pairs_idx
    A = T.copy() if via == "indices" else D.S[T]
    return (A, D.pairs_y.copy())
  if kind == "triplets":
    T = D.triplets_idx
    return (T.copy() if via == "indices" else D.S[T],)
  if kind == "quads":
    T = D.quads_idx
    return (T.copy() if via == "indices" else D.S[T],)
  raise ValueError(kind)


def n_train_tuples(name, D):
  kind = SPEC[name]["kind"]
  return {"pairs": len(D.pairs_idx), "triplets": len(D.triplets_idx),
          "quads": len(D.quads_idx)}.get(kind, D.n)


def feasible(name, params, D):
  """Documented feasibility constraints the generator must respect."""
  d = D.d
  kind = SPEC[name]["kind"]
  if kind == "pairs":
    if len(D.pairs_idx) < 4 or len(set(D.pairs_y.tolist())) < 2:
      return False
    if name == "SDML" and d < 2:
      return False
  if kind == "triplets" and len(D.triplets_idx) < max(d, 4):
    return False
  if kind == "quads" and len(D.quads_idx) < 4:
    return False
  if name in ("SDML_Supervised",) and d < 2:
    return False
  nc = params.get("n_components")
  if nc is not None and not (1 <= nc <= d):
    return False
  if params.get("init") == "lda" and (d if nc is None else nc) > min(d, D.classes - 1):
    return False        # 'lda' init is documented for n_components <= n_classes - 1 only
  if name == "RCA_Supervised":
    cs, nch = params["chunk_size"], params["n_chunks"]
    counts = np.bincount(D.y0, minlength=D.classes)
    if nch * (cs - 1) < d + 2 or int(np.sum(counts // cs)) < nch:
      return False
  if name == "RCA" and (D.n_chunks < 2 or
                        int(np.sum(D.chunks >= 0)) - D.n_chunks < d + 2):
    return False
  return True
