"""Seeded generator of history plans (swarm style): datasets, estimator
handles, API operations, faults and perturbations.  A plan is a pure function
of the run seed; the generator tracks a *symbolic* state so that most ops are
meaningful, while the executor tolerates any op sequence."""
import numpy as np

from .core import substream
from .data import make_data
from .estimators import (SPEC, ALL, gen_params, default_meta, feasible,
                         tuple_size, PAIRS)

_DCACHE = {}


def _data(desc):
  from .core import canon
  k = canon(desc)
  if k not in _DCACHE:
    if len(_DCACHE) > 64:
      _DCACHE.clear()
    _DCACHE[k] = make_data(desc)
  return _DCACHE[k]


def gen_dataset(r, dmax=6, kind=None, tuples=True, unknown=False, big=False, tiny_scale_p=0.0, int_rows_p=0.0, int_dtype_p=0.0, one_class_p=0.0):
  d = r.randint(2, dmax)
  c = r.choice([2, 2, 3, 3, 4])
  n = max(4 * d, 5 * c) + r.randint(0, 24 if big else 12)
  desc = dict(kind=kind or "blobs", seed=r.randrange(10**6), n=n, d=d, classes=c,
              extra=r.choice([0, 0, 5]), cond=r.choice([1, 10, 100]),
              scale=r.choice([0, 0, 0.5, 1]), sep=r.choice([1.0, 2.0, 4.0]))
  if r.random() < 0.25:        # class labels are arbitrary non-negative integers
    desc["label_stride"] = r.choice([1, 2, 5])
    desc["label_offset"] = r.choice([1, 3, 10])
  if tiny_scale_p and r.random() < tiny_scale_p:
    desc["global_scale"] = r.choice([1e-6, 1e-9, 1e4])
  if tuples:
    desc["tuples"] = r.randint(max(10, 2 * d), 40)
  if unknown:
    desc["unknown"] = r.choice([0.1, 0.3, 0.5])
  if r.random() < 0.3:
    desc["perm"] = 1
  if r.random() < 0.35:
    desc["chunk_ids"] = r.choice(["onebased", "gaps", "shuffled", "gaps_shuffled"])
  if int_dtype_p and (kind or "blobs") == "blobs" and not desc.get("global_scale") and r.random() < int_dtype_p:
    desc["int_dtype"] = True
  if one_class_p and tuples and r.random() < one_class_p:
    desc["one_class_pairs"] = r.choice([1, -1])
  if int_rows_p and (kind or "blobs") == "blobs" and not desc.get("global_scale") and r.random() < int_rows_p:
    # (never together with a tiny global scale: rounding would collapse every point onto 0)
    desc["int_rows"] = r.choice([0.3, 0.6])
  rr = substream(desc["seed"], "store-returns")      # (own stream: older plans keep their other choices)
  if rr.random() < 0.2:
    # a callable store over this data answers with a nested list / tuple of tuples, not an ndarray
    desc["store_returns"] = rr.choice(["list", "tuple"])
  return desc


def sdml_balance(name, params, D, r):
  """Pick balance_param so that the graphical-lasso input is positive
  definite (certificate computed from the data, harness side)."""
  d = D.d
  prior = params.get("prior", "identity")
  if isinstance(prior, dict):
    from .estimators import make_array
    lam_min = 1.0 / np.linalg.eigvalsh(make_array(prior["$arr"])).max()
  elif prior == "covariance":
    X = np.unique(D.S[D.pairs_idx].reshape(-1, d), axis=0) if name == "SDML" else D.X
    lam_min = max(np.linalg.eigvalsh(np.atleast_2d(np.cov(X, rowvar=False))).min(), 1e-12)
  elif prior == "random":
    lam_min = 0.05      # unknown to the generator: conservative guess
  else:
    lam_min = 1.0
  if name == "SDML":
    v = D.S[D.pairs_idx[:, 0]] - D.S[D.pairs_idx[:, 1]]
    L = (v.T * D.pairs_y).dot(v)
    neg = max(-np.linalg.eigvalsh(L).min(), 1e-12)
  else:
    diam2 = ((D.X.max(axis=0) - D.X.min(axis=0)) ** 2).sum()
    nc = params.get("n_constraints") or 20 * D.classes ** 2
    neg = nc * diam2
  return float(r.choice([0.2, 0.5, 0.8]) * lam_min / neg)


def params_for(name, r, D):
  for _ in range(20):
    p = gen_params(name, r, default_meta(D))
    if feasible(name, p, D):
      if name in ("SDML", "SDML_Supervised"):
        p["balance_param"] = sdml_balance(name, p, D, r)
      return p
  return None


THRESH_VALUES = [
    dict(kind="float", v=1.5), dict(kind="float", v=0.0), dict(kind="float", v=-1.0),
    dict(kind="float", v=1e6), dict(kind="int", v=2), dict(kind="npfloat", v=0.75),
    dict(kind="np0d", v=3.25), dict(kind="str", v="2.5"),
]


def gen_cp(r, invalid=False):
  if invalid:
    return r.choice([
        dict(strategy="weird"), dict(strategy="max_tpr"),
        dict(strategy="max_tpr", min_rate=1.5), dict(strategy="max_tnr", min_rate=-0.1),
        dict(strategy="max_tnr", min_rate="0.5"), dict(strategy="f_beta", beta=None),
        dict(strategy="f_beta", beta="1"), dict(strategy=None),
        dict(strategy="max_tpr", min_rate=None),
        dict(strategy="max_tpr", min_rate=float("nan")), dict(strategy="max_tnr", min_rate=float("nan")),
        dict(strategy="max_tnr", min_rate=float("inf")), dict(strategy="max_tpr", min_rate=[0.5]),
        dict(strategy="f_beta", beta=[1.0]),
    ])
  if r.random() < 0.12:
    # partial settings: whatever is left out takes calibrate_threshold's default
    # (strategy 'accuracy', beta 1.0) - and nothing an earlier call used
    return r.choice([dict(), dict(strategy="f_beta"), dict(strategy="accuracy"), dict(beta=2.0)])
  s = r.choice(["accuracy", "f_beta", "max_tpr", "max_tnr"])
  cp = dict(strategy=s)
  if s == "f_beta":
    cp["beta"] = r.choice([0, 0.5, 1, 1.0, 2.0, 10.0])
  if s in ("max_tpr", "max_tnr"):
    cp["min_rate"] = r.choice([0, 0.0, 0.1, 0.25, 0.5, 0.75, 0.9, 1, 1.0,
                               # just above / below rates that small validation sets attain
                               0.250001, 0.500004, 0.750001, 0.3333334, 0.6666667, 0.499999,
                               0.2000001, 0.7999999, 1e-9, 1 - 1e-9])
  return cp


def fit_extras(name, r, D, p=0.5):
  ex = {}
  if name in ("ITML", "ITML_Supervised") and r.random() < p:
    lo = r.choice([0.0, 0.0, 0.5, 1.0])
    ex["bounds"] = {"$arr": dict(kind="bounds", lo=lo, hi=lo + r.choice([1.0, 3.0, 10.0]),
                                 **{"as": r.choice(["ndarray", "ndarray", "list", "tuple", "column"])})}
    if substream(D.desc.get("seed", 0), "generous-bounds-%d" % len(name)).random() < 0.25:
      # bounds that the prior already satisfies for every pair (similar pairs closer than 1e12,
      # dissimilar ones farther than 1e-12): no constraint is ever active
      ex["bounds"]["$arr"].update(lo=1e12, hi=1e-12)
  if name == "LSML" and r.random() < p:
    ex["weights"] = {"$arr": dict(kind="weights", seed=r.randrange(100), m=len(D.quads_idx),
                                  scale=r.choice([1.0, 1.0, 100.0]),
                                  **{"as": r.choice(["ndarray", "ndarray", "list"])})}
  return ex


class Sym(object):
  def __init__(self, hid, name, data, pre):
    self.hid, self.name, self.data, self.pre = hid, name, data, pre
    self.fitted = False
    self.fit_data = None


DEFAULT_W = dict(query=30, refit=12, threshold=10, calibrate=6, handout=8,
                 mutate=3, restart=7, clone=4, ambient=5, eigsh=3, set_nondata=4,
                 failfit=3, fault=0, new=6, sweep=0, swap_pre=3, interrupt=0, mutate_store=0, alias=0)


def gen_history(seed, tier, classes=None, weights=None, n_ops=(6, 16),
                max_handles=3, pre_p=0.4, dmax=6, fresh_p=0.0, dataset_kinds=None,
                unknown=False, verbose_p=0.15, extras_p=0.5, share_p=0.3,
                classifier_bias=1, cp_fit_p=0.25, cp_invalid_p=0.0, calib_invalid_p=0.25,
                store_bias=1, tiny_scale_p=0.0, wide_p=0.0, grid_p=0.0, failfirst_p=0.05, crash_sweep_p=0.0, buffer_p=0.0, view_p=0.0, int_rows_p=0.0, int_dtype_p=0.0, one_class_p=0.0, calib_other_p=0.0):
  r = substream(seed, "hist")
  if wide_p and substream(seed, "hist-wide").random() < wide_p:
    return gen_wide_history(seed)
  if crash_sweep_p and substream(seed, "hist-crash").random() < crash_sweep_p:
    return gen_crash_sweep(seed, classes or ALL, dmax)
  if tier == "thorough" and r.random() < 0.5:
    # deeper exploration: half of the thorough runs use longer histories,
    # more live handles and datasets up to the properties' dimension bound
    n_ops = (n_ops[0] + 4, n_ops[1] * 2 + 4)
    max_handles = max_handles + 2
    dmax = max(dmax, 8)
  W = dict(DEFAULT_W)
  W.update(weights or {})
  classes = classes or ALL
  # swarm: switch some op kinds off for this run
  for k in list(W):
    if k not in ("query", "refit") and r.random() < 0.2:
      W[k] = 0
  nd = r.randint(1, 3)
  datasets = {}
  for i in range(nd):
    kind = r.choice(dataset_kinds) if dataset_kinds else None
    datasets["D%d" % i] = gen_dataset(r, dmax=dmax, kind=kind, unknown=unknown,
                                      tiny_scale_p=tiny_scale_p, int_rows_p=int_rows_p,
                                      int_dtype_p=int_dtype_p, one_class_p=one_class_p)
  if view_p and r.random() < view_p:
    # a second store that is a slice of D0's array (train / validation split of
    # one array): swapping one for the other as preprocessor must take effect
    import copy as _copy
    b = datasets["D0"]
    start = r.randint(1, max(1, b["n"] // 5))
    datasets["D0v"] = dict(view_of=_copy.deepcopy(b), start=start, seed=r.randrange(10**6),
                           n=b["n"] - start, d=b["d"], classes=b["classes"], kind=b.get("kind", "blobs"),
                           extra=b.get("extra", 0), tuples=b.get("tuples", 0),
                           label_stride=b.get("label_stride", 1), label_offset=b.get("label_offset", 0))
    if b.get("unknown"):
      datasets["D0v"]["unknown"] = b["unknown"]
  dkeys = sorted(datasets)
  plan = dict(run_seed=seed, datasets=datasets, ops=[],
              world=dict(jumpy_clock=r.random() < 0.3,
                         fresh_restarts=1 if r.random() < fresh_p else 0))
  ops = plan["ops"]
  syms = []
  store_dks = set()
  shared_params = {}

  def new_handle():
    name = r.choice(classes)
    dk = r.choice(dkeys)
    if "D0v" in datasets and r.random() < 0.5:
      dk = r.choice(["D0", "D0v"])
    D = _data(datasets[dk])
    p = params_for(name, r, D)
    if p is None:
      return None
    if r.random() < share_p and (name, dk) in shared_params:
      # same descriptors -> the very same array objects (aliasing)
      prev = shared_params[(name, dk)]
      for k, v in prev.items():
        if isinstance(v, dict) and k in p:
          p[k] = v
          if k == "init" and "n_components" in prev:    # keep the array's shape consistent
            p["n_components"] = prev["n_components"]
    shared_params[(name, dk)] = p
    if r.random() < verbose_p and name != "Covariance" and "verbose" in \
        cls_params(name):
      p["verbose"] = True
    pre = r.choice(["ndarray", "list"] + ["store"] * store_bias) if r.random() < pre_p else None
    if "D0v" in datasets and dk in ("D0", "D0v") and r.random() < 0.5:
      pre = "ndarray"
    hid = len(syms)
    op = dict(op="new", h=hid, cls=name, params=p)
    if dk in store_dks and r.random() < 0.4:
      pre = "store"
    if pre:
      op.update(pre=pre, pre_data=dk)
      if pre == "store":
        if dk in store_dks and r.random() < 0.7:
          op["share_store"] = True     # the same callable object as an earlier estimator on this dataset
        store_dks.add(dk)
    ops.append(op)
    s = Sym(hid, name, dk, pre)
    s.params = dict(p)
    syms.append(s)
    return s

  def fit_op(s, dk=None, regen=False):
    dk = dk or s.data
    D = _data(datasets[dk])
    cur = getattr(s, "params", None)
    data_free = (cur is not None and cur.get("n_components") is None and
                 not any(isinstance(v, dict) for v in cur.values()) and
                 s.name not in ("SDML", "SDML_Supervised", "RCA_Supervised") and
                 feasible(s.name, cur, D))
    one_class = bool(datasets[dk].get("one_class_pairs")) and s.name in PAIRS
    if one_class:
      # a pair set with one kind of pair only: not a well-formed training set, the
      # fit may raise - but then it must do so whatever the object went through before
      if dk != s.data and _data(datasets[s.data]).d != D.d:
        return
      s.data = dk
    elif dk != s.data and not regen and data_free and r.random() < 0.4:
      # hyper-parameters that do not depend on the data: refit on the other
      # dataset (other size / dimensionality) without touching them
      s.data = dk
    elif regen or dk != s.data:
      p = params_for(s.name, r, D)
      if p is None:
        return
      ops.append(dict(op="set_params", h=s.hid, params=p))
      if s.fitted and s.fit_data and r.random() < 0.35:
        # hyper-parameters only take effect at the next fit: ask the (still
        # fitted) estimator something in between
        ops.append(dict(op="query", h=s.hid, method=r.choice(methods(s)),
                        probe=dict(probe(s), data=s.fit_data)))
      s.params = dict(getattr(s, "params", {}) or {}, **p)
      s.data = dk
    via = "indices" if (s.pre and r.random() < 0.6) else "formed"
    if s.name == "LFDA" and W.get("eigsh") and r.random() < 0.5:
      # LFDA is the one learner whose result comes out of an iterative solver
      # with a fallback chain: decide the solver's fate right before its fit
      ops.append(dict(op="eigsh", mode=r.choice(["seeded", "fail", "fail", "fail2"]), seed=r.randrange(10**6)))
    op = dict(op="fit", h=s.hid, data=dk, via=via)
    if not hasattr(s, "buffered"):
      s.buffered = bool(buffer_p) and r.random() < buffer_p     # a caller habit: sticky per estimator
    if s.buffered and r.random() < 0.85:
      # the caller keeps one set of array objects per (dataset, kind of
      # arguments) and refills them: same objects, other content (rows in
      # another order; for formed data also other units, slightly moved)
      op["buffer"] = "B:%s:%s" % (dk, SPEC[s.name]["kind"])
      if r.random() < 0.8:
        op["variant"] = dict(seed=r.randrange(10**6), perm=r.choice([None, r.randrange(10**6)]),
                             scale=r.choice([1.0, 0.25, 0.5, 2.0, 3.0, 10.0]),
                             noise=r.choice([0.0, 0.01, 0.05]))
    ex = fit_extras(s.name, r, D, extras_p)
    if s.name in PAIRS and r.random() < cp_fit_p:
      ex["calibration_params"] = gen_cp(r, r.random() < cp_invalid_p)
    if ex:
      op["extras"] = ex
    if unknown and SPEC[s.name].get("sup") and r.random() < 0.5:
      op["y_kind"] = "partial"
    ops.append(op)
    s.fitted = True
    s.fit_data = dk
    cpx = ex.get("calibration_params")
    if cpx is not None:
      from .props.c04 import _valid_cp
      if not _valid_cp(cpx):
        s.fitted = s.fitted_before if hasattr(s, "fitted_before") else False

  def probe(s):
    p = dict(data=s.fit_data or s.data, seed=r.randrange(1000),
             m=r.choice([1, 1, 2, 3, 4, 5, 6, 7]),
             kind=r.choice(["mixed", "dups", "plain", "random"]),
             via="indices" if (s.pre and r.random() < 0.5) else "formed")
    if p["via"] == "indices" and r.random() < 0.2:
      p["neg"] = True
    if r.random() < 0.3:
      p["layout"] = r.choice(["F", "T", "T"])
    if r.random() < 0.25:
      p["near"] = r.choice([1e-6, 1e-9, 1e-12])
    elif grid_p and r.random() < grid_p:
      # dyadic-grid probe: exact ties by translation, optionally far from the origin
      p["grid"] = True
      p["via"] = "formed"
      p["m"] = r.choice([2, 4, 5, 6])
      if r.random() < 0.4:
        p["far"] = r.choice([20, 30, 36])
      elif r.random() < 0.3:
        p["f32"] = True
      elif substream(seed, "hist-huge-%d" % p["seed"]).random() < 0.4:
        p["huge"] = True
      elif substream(seed, "hist-i64-%d" % p["seed"]).random() < 0.5:
        p["int64_far"] = True
    return p

  def methods(s):
    m = ["transform", "pair_distance", "pair_score", "score_pairs",
         "get_mahalanobis_matrix", "metric_call"]
    if tuple_size(s.name):
      m += ["predict", "decision_function", "score"] * classifier_bias
    return m

  s0 = None
  for _ in range(50):           # bounded: every generator loop carries a cap
    s0 = new_handle()
    if s0 is not None:
      break
  if s0 is None:
    return plan                 # nothing feasible for this seed: an empty history
  fit_op(s0)
  if "D0v" in datasets and W.get("swap_pre"):
    W["swap_pre"] = max(W["swap_pre"], 12)
  total = r.randint(*n_ops)
  guard = 0
  while len(ops) < total and guard < 200:
    guard += 1
    kinds = [k for k, w in W.items() if w > 0]
    k = r.choices(kinds, [W[x] for x in kinds])[0]
    s = r.choice(syms)
    if k == "new":
      if len(syms) < max_handles:
        s2 = new_handle()
        if s2 is not None and r.random() < failfirst_p:
          # the very first fit of this object fails (malformed input): the
          # object is still a not-yet-fitted estimator for every query method
          ops.append(dict(op="fit", h=s2.hid, data=s2.data, via="formed",
                          malformed=r.choice(["nan", "short_y", "nan"])))
          for mth in sorted(set(methods(s2))):
            if r.random() < 0.45:
              ops.append(dict(op="query", h=s2.hid, method=mth, probe=probe(s2)))
          if r.random() < 0.3:
            ops.append(dict(op="restart", h=s2.hid, how="inproc"))
            ops.append(dict(op="query", h=s2.hid, method=r.choice(methods(s2)), probe=probe(s2)))
        elif s2 is not None and r.random() < 0.85:
          fit_op(s2)
      continue
    if not s.fitted and k not in ("query", "ambient", "eigsh"):
      fit_op(s)
      continue
    if k == "query":
      pb = probe(s)
      mth = r.choice(methods(s))
      others = [x for x in syms if x is not s and x.fitted and x.pre and tuple_size(x.name) == tuple_size(s.name)]
      if s.pre and s.fitted and others and r.random() < 0.3:
        # the same indicator tuples are put to two estimators that read through
        # different preprocessors, one right after the other
        pb = dict(pb, via="indices", cap=8)
        pb.pop("grid", None)
        o = r.choice(others)
        ops.append(dict(op="query", h=s.hid, method=mth, probe=dict(pb, data=s.fit_data or s.data)))
        ops.append(dict(op="query", h=o.hid, method=mth if mth in methods(o) else "pair_distance",
                        probe=dict(pb, data=o.fit_data or o.data)))
        continue
      ops.append(dict(op="query", h=s.hid, method=mth, probe=pb))
    elif k == "refit":
      other = r.choice(dkeys)
      if s.pre and other != s.data and r.random() < 0.7:
        other = s.data
      fit_op(s, other, regen=r.random() < 0.3)
    elif k == "threshold" and s.name in PAIRS:
      if r.random() < 0.15:
        v = dict(kind="bad", v=r.choice(["x", "none", "list", "obj"]))
      elif r.random() < 0.35:
        v = dict(kind="dist", probe=probe(s), i=r.randrange(5))
        v["probe"]["via"] = "formed"
      else:
        v = dict(r.choice(THRESH_VALUES))
        if v["kind"] == "float" and r.random() < 0.5:
          v["v"] = round(r.uniform(0, 6), 3)
      ops.append(dict(op="set_threshold", h=s.hid, value=v))
    elif k == "sweep" and s.name in PAIRS:
      vs = [dict(kind="float", v=round(r.uniform(0, 8), 3)) for _ in range(r.randint(2, 4))]
      pb = dict(probe(s), via="formed")
      vs.append(dict(kind="dist", probe=pb, i=r.randrange(5)))
      ops.append(dict(op="sweep", h=s.hid, values=vs, probe=pb))
    elif k == "calibrate" and s.name in PAIRS:
      inv = r.random() < calib_invalid_p
      ops.append(dict(op="calibrate", h=s.hid, data=s.fit_data, seed=r.randrange(1000),
                      m=r.randint(4, 12), noise=r.choice([0, 0.2, 0.5]),
                      dups=r.random() < 0.4, cp=gen_cp(r, inv),
                      via="indices" if (s.pre and r.random() < 0.5) else "formed"))
      if ops[-1]["via"] == "formed" and substream(seed, "hist-nearties-%d" % len(ops)).random() < 0.35:
        # half of the validation pairs are translated / minutely rescaled copies of the other
        # half: learned distances that differ in the last place or two, with conflicting labels
        ops[-1]["near_ties"] = True
        ops[-1]["m"] = max(ops[-1]["m"], 8)
      if ops[-1]["via"] == "formed" and substream(seed, "hist-f32cal-%d" % len(ops)).random() < 0.2:
        ops[-1]["f32"] = True
      if calib_other_p and r.random() < calib_other_p and len(dkeys) > 1:
        # validation pairs from another dataset (possibly of another width: then the
        # call is rejected - and must leave the fitted model as it was)
        ops[-1]["data"] = r.choice([k_ for k_ in dkeys if k_ != s.fit_data] or dkeys)
        ops[-1]["via"] = "formed"
      elif not inv and r.random() < 0.25:
        ops[-1]["in_fit_buffers"] = True
        if s.pre:
          ops[-1]["via"] = "indices"
    elif k == "handout":
      what = r.choice(["metric", "M"])
      ops.append(dict(op="handout", h=s.hid, what=what, seed=r.randrange(1000)))
      if what == "M" and W.get("mutate") and r.random() < 0.5:
        # the caller scribbles over the matrix it was just given, then asks again
        ops.append(dict(op="mutate_handout", last=True, fill=r.choice([-7.0, 0.0, 1e9])))
        ops.append(dict(op="query", h=s.hid, method=r.choice(["get_mahalanobis_matrix", "pair_distance",
                                                              "transform", "metric_call"]),
                        probe=probe(s)))
    elif k == "mutate":
      ops.append(dict(op="mutate_handout", k=r.randrange(4), fill=r.choice([-7.0, 0.0, 1e9])))
    elif k == "restart":
      how = "fresh" if plan["world"]["fresh_restarts"] and r.random() < 0.5 else "inproc"
      ops.append(dict(op="restart", h=s.hid, how=how))
    elif k == "clone":
      if len(syms) < max_handles + 1:
        hid = len(syms)
        ops.append(dict(op="clone", h=s.hid, h2=hid))
        s2 = Sym(hid, s.name, s.data, s.pre)
        s2.params = dict(getattr(s, "params", {}) or {})
        syms.append(s2)
        if r.random() < 0.8:
          fit_op(s2)
    elif k == "ambient":
      ops.append(dict(op="ambient", seed=r.randrange(10**6), draws=r.randint(0, 5)))
    elif k == "eigsh":
      ops.append(dict(op="eigsh", mode=r.choice(["seeded", "seeded", "fail", "fail2"]),
                      seed=r.randrange(10**6)))
    elif k == "swap_pre":
      # replace the preprocessor (array / list / store over another dataset, or
      # none) and refit: the new preprocessor must be the one that is used
      other = r.choice(dkeys)
      newpre = r.choice(["ndarray", "list", "store", None])
      if "D0v" in datasets and s.data in ("D0", "D0v") and r.random() < 0.7:
        # the other half of the same array (a slice sharing its memory)
        other = "D0v" if s.data == "D0" else "D0"
        newpre = r.choice(["ndarray", "ndarray", "ndarray", "list", "store"])
      op = dict(op="set_params", h=s.hid, params={}, pre=newpre)
      if newpre:
        op["pre_data"] = other
      D2 = _data(datasets[other])
      p2 = params_for(s.name, r, D2)
      if p2 is not None:
        op["params"] = p2
        ops.append(op)
        s.params = dict(getattr(s, "params", {}) or {}, **p2)
        s.pre, s.data = newpre, other
        s.fitted = False
        if r.random() < 0.5:
          # queries between the swap and the refit: the estimator is still the
          # one fitted with the old preprocessor_ and must stay so - whichever
          # query method is used (a battery over the estimator's query methods)
          for mth in sorted(set(methods(s))):
            if r.random() < 0.5:
              ops.append(dict(op="query", h=s.hid, method=mth,
                              probe=dict(probe(s), data=r.choice([other, s.fit_data or other]),
                                         via=r.choice(["indices", "formed"]))))
        if s.name in PAIRS and newpre and r.random() < 0.3 and \
            _data(datasets[other]).d == _data(datasets[s.fit_data or other]).d:
          # calibrate_threshold after the swap, without a refit: it re-derives
          # preprocessor_ from the parameter, so the indicators are resolved in
          # the *new* store - the metric stays the fitted one
          ops.append(dict(op="calibrate", h=s.hid, data=other, seed=r.randrange(1000),
                          m=r.randint(4, 12), noise=r.choice([0, 0.2, 0.5]), dups=r.random() < 0.4,
                          cp=gen_cp(r, False), via="indices", after_swap=True))
        if r.random() < 0.7:
          fit_op(s, other)
        else:
          # leave the estimator fitted with the *old* preprocessor_: a restart
          # must preserve exactly that state
          ops.append(dict(op="restart", h=s.hid, how="inproc"))
          fit_op(s, other)
    elif k == "alias":
      cl, al, rp, val = r.choice([("ITML_Supervised", "num_constraints", "n_constraints", 17),
                                  ("MMC_Supervised", "num_constraints", "n_constraints", 23),
                                  ("LSML_Supervised", "num_constraints", "n_constraints", 11),
                                  ("SDML_Supervised", "num_constraints", "n_constraints", 13),
                                  ("ITML", "convergence_threshold", "tol", 0.02),
                                  ("ITML_Supervised", "convergence_threshold", "tol", 0.03),
                                  ("MMC", "convergence_threshold", "tol", 0.04),
                                  ("RCA_Supervised", "num_chunks", "n_chunks", 7),
                                  ("LMNN", "k", "n_neighbors", 2)])
      ops.append(dict(op="alias_new", cls=cl, alias=al, repl=rp, value=val))
    elif k == "mutate_store":
      # the caller edits the array / list / table its estimators read through, in
      # place, and fits again
      cands = [x for x in syms if x.pre and not datasets[x.data].get("view_of")]
      if cands:
        s2 = r.choice(cands)
        ops.append(dict(op="mutate_store", data=s2.data, seed=r.randrange(10**6), how=r.choice(["rows", "all"])))
        for x in syms:
          if x.pre and (x.data == s2.data or datasets[x.data].get("view_of")):
            x.fitted = False
        fit_op(s2, s2.data)
    elif k == "set_nondata":
      cp = cls_params(s.name)
      cand = {}
      if "verbose" in cp:
        cand["verbose"] = r.choice([True, False])
      if "max_iter" in cp and not s.name.startswith("SCML"):   # SCML: max_iter >= output_iter
        cand["max_iter"] = r.choice([1, 7, 13])
      if "tol" in cp:
        cand["tol"] = r.choice([1e-4, 1e-2])
      if "random_state" in cp:
        cand["random_state"] = r.randrange(10**6)
      if "diagonal" in cp:
        cand["diagonal"] = r.choice([True, False])
      if "embedding_type" in cp:
        cand["embedding_type"] = r.choice(["weighted", "orthonormalized", "plain"])
      if "sparsity_param" in cp:
        cand["sparsity_param"] = r.choice([0.01, 0.5])
      if "gamma" in cp:
        cand["gamma"] = r.choice([0.5, 2.0])
      if cand:
        key = r.choice(sorted(cand))
        ops.append(dict(op="set_params", h=s.hid, params={key: cand[key]}, nondata=True))
        if s.fitted and r.random() < 0.5:
          ops.append(dict(op="query", h=s.hid, method=r.choice(methods(s)), probe=probe(s)))
        if key in ("diagonal", "embedding_type", "sparsity_param", "gamma"):
          # put the drawn value back before anything is fitted with it (it was
          # drawn for the data at hand; the detour must leave no trace)
          old_v = (getattr(s, "params", None) or {}).get(key, "<default>")
          if isinstance(old_v, str) and old_v == "<default>":
            import inspect
            from .estimators import cls_of
            old_v = inspect.signature(cls_of(s.name).__init__).parameters[key].default
          ops.append(dict(op="set_params", h=s.hid, params={key: old_v}, nondata=True))
    elif k == "failfit":
      ops.append(dict(op="fit", h=s.hid, data=s.data, via="formed",
                      malformed=r.choice(["nan", "short_y"])))
      s.fitted = False
    elif k == "interrupt":
      # crash point: the next fit (same or other data) is interrupted at a
      # drawn fraction of its metric-learn line events; the fit after it must
      # behave as if the interrupted one had never happened
      other = r.choice(dkeys)
      if s.pre and other != s.data:
        other = s.data
      n0 = len(ops)
      fit_op(s, other, regen=r.random() < 0.2)
      if len(ops) > n0 and ops[-1]["op"] == "fit":
        ops[-1].get("extras", {}).pop("calibration_params", None)
        fr = r.choice([r.random(), r.random(), r.random(), r.random(), r.random() ** 3,
                       1 - r.random() ** 3, 1 - r.random() ** 3, 0.999999])
        ops[-1]["interrupt"] = dict(frac=round(fr, 6),
                                    exc=r.choice(["KeyboardInterrupt", "KeyboardInterrupt", "MemoryError"]))
        if r.random() < 0.5:
          ops[-1]["interrupt"]["func"] = round(r.random(), 6)
        s.fitted = False
        if r.random() < 0.9:
          fit_op(s, r.choice([s.data, s.data, s.data, other]) if not s.pre else s.data)
    elif k == "fault" and s.pre == "store":
      ops.append(dict(op="arm_fault", h=s.hid, at=r.randrange(0, 4),
                      exc=r.choice(["ValueError", "KeyError", "IndexError", "RuntimeError",
                                    "MemoryError", "UserStoreError"])))
      if r.random() < 0.5:
        ops.append(dict(op="query", h=s.hid, method=r.choice(methods(s)),
                        probe=dict(probe(s), via="indices")))
      else:
        ops.append(dict(op="fit", h=s.hid, data=s.data, via="indices"))
  return plan


def gen_crash_sweep(seed, classes, dmax):
  """Crash-point sweep: one estimator, one dataset; the same fit is interrupted
  at several points spread over its execution, and after every interruption it
  is repeated on the same object (which must then behave like a fresh one)."""
  r = substream(seed, "hist-crash-plan")
  plan = dict(run_seed=seed, datasets={}, ops=[], world=dict(jumpy_clock=False, fresh_restarts=0))
  # learners whose fit has several phases (constraint generation, basis or prior
  # construction, optimisation) get twice the share: more places to be interrupted at
  pool = list(classes) + [c for c in classes if c.endswith("_Supervised") or c in ("LMNN", "SCML")]
  for _ in range(30):
    name = r.choice(pool)
    desc = gen_dataset(r, dmax=dmax)
    p = params_for(name, r, _data(desc))
    if p is not None:
      break
  else:
    return plan
  plan["datasets"]["D0"] = desc
  ops = plan["ops"]
  pre = r.choice([None, None, "ndarray", "store"])
  op = dict(op="new", h=0, cls=name, params=p)
  if pre:
    op.update(pre=pre, pre_data="D0")
  ops.append(op)
  via = "indices" if pre and r.random() < 0.6 else "formed"
  if r.random() < 0.7:
    ops.append(dict(op="fit", h=0, data="D0", via=via))
  k = r.randint(3, 7)
  fracs = sorted((i + r.random()) / k for i in range(k))
  if r.random() < 0.5:
    r.shuffle(fracs)
  for f in fracs:
    it = dict(frac=round(f, 6), exc=r.choice(["KeyboardInterrupt", "KeyboardInterrupt", "MemoryError"]))
    if r.random() < 0.5:
      it["func"] = round(r.random(), 6)
    ops.append(dict(op="fit", h=0, data="D0", via=via, interrupt=it))
    if r.random() < 0.15:
      ops.append(dict(op="restart", h=0, how="inproc"))
    ops.append(dict(op="fit", h=0, data="D0", via=via))
    if r.random() < 0.3:
      ops.append(dict(op="query", h=0, method=r.choice(["transform", "pair_distance", "get_mahalanobis_matrix"]),
                      probe=dict(data="D0", seed=r.randrange(1000), m=3, kind="plain", via="formed")))
  return plan


def _gen_medium_wide(seed, r):
  """Moderately wide data (24-48 features): the regime in which the exact bits of
  an answer start to depend on how an array lies in memory (BLAS kernels), i.e.
  where a fitted model that changes its memory layout when pickled shows."""
  d = r.randint(24, 48)
  c = r.choice([2, 3, 4])
  desc = dict(kind="blobs", seed=r.randrange(10**6), n=r.randint(4 * d + 10, 4 * d + 60), d=d, classes=c,
              extra=0, cond=r.choice([1, 10]), scale=0, sep=r.choice([1.0, 2.0]))
  plan = dict(run_seed=seed, datasets={"D0": desc}, ops=[], world=dict(jumpy_clock=False, fresh_restarts=0))
  ops = plan["ops"]
  name = r.choice(["LFDA", "LFDA", "LFDA", "Covariance", "NCA", "MLKR", "LMNN", "RCA_Supervised"])
  p = {}
  if name == "LFDA":
    p = dict(embedding_type=r.choice(["weighted", "plain", "orthonormalized"]),
             n_components=r.choice([None, None, d // 2, 5]), k=r.choice([None, 3, 7]))
  elif name in ("NCA", "MLKR", "LMNN"):
    p = dict(n_components=r.choice([None, 5, d // 2]), init=r.choice(["auto", "pca", "identity"]),
             max_iter=r.choice([1, 2]), random_state=r.randrange(10**6))
    if name == "LMNN":
      p["n_neighbors"] = r.choice([1, 2])
  elif name == "RCA_Supervised":
    p = dict(n_chunks=d + 10, chunk_size=2, random_state=r.randrange(10**6), n_components=r.choice([None, d // 2]))
  ops.append(dict(op="new", h=0, cls=name, params=p))
  ops.append(dict(op="fit", h=0, data="D0", via="formed"))
  for _ in range(r.randint(2, 4)):
    k = r.choice(["restart", "restart", "query", "refit", "clone"])
    if k == "restart":
      ops.append(dict(op="restart", h=0, how="inproc"))
    elif k == "query":
      ops.append(dict(op="query", h=0, method=r.choice(["transform", "pair_distance", "get_mahalanobis_matrix"]),
                      probe=dict(data="D0", seed=r.randrange(1000), m=4, kind="plain", via="formed")))
    elif k == "refit":
      ops.append(dict(op="fit", h=0, data="D0", via="formed"))
    else:
      ops.append(dict(op="clone", h=0, h2=1))
      ops.append(dict(op="fit", h=1, data="D0", via="formed"))
  return plan


def gen_wide_history(seed):
  """A short history on a *wide* dataset (more than 500 samples, 50-64
  features): the regime in which dependencies switch to randomised solvers
  (scikit-learn's PCA, for one), i.e. where hidden randomness can enter a fit
  whose random_state is an integer."""
  r = substream(seed, "hist-wide-plan")
  if r.random() < 0.5:
    return _gen_medium_wide(seed, r)
  d = r.randint(52, 64)
  c = r.choice([2, 3, 4])
  desc = dict(kind="blobs", seed=r.randrange(10**6), n=r.randint(505, 530), d=d, classes=c,
              extra=0, cond=r.choice([1, 10]), scale=0, sep=r.choice([1.0, 2.0]))
  plan = dict(run_seed=seed, datasets={"D0": desc}, ops=[],
              world=dict(jumpy_clock=False, fresh_restarts=0))
  ops = plan["ops"]
  name = r.choice(["NCA", "NCA", "MLKR", "MLKR", "LMNN"])
  nc = r.randint(2, 6)
  p = dict(n_components=nc, init=r.choice(["pca", "pca", "auto", "random"]),
           max_iter=r.choice([1, 2]), random_state=r.randrange(10**6))
  if name == "LMNN":
    p["n_neighbors"] = r.choice([1, 2])
  ops.append(dict(op="new", h=0, cls=name, params=p))
  ops.append(dict(op="fit", h=0, data="D0", via="formed"))
  for _ in range(r.randint(1, 3)):
    k = r.choice(["ambient", "refit", "clone", "restart", "query"])
    if k == "ambient":
      ops.append(dict(op="ambient", seed=r.randrange(10**6), draws=r.randint(0, 5)))
    elif k == "refit":
      ops.append(dict(op="fit", h=0, data="D0", via="formed"))
    elif k == "clone":
      ops.append(dict(op="clone", h=0, h2=1))
      ops.append(dict(op="fit", h=1, data="D0", via="formed"))
    elif k == "restart":
      ops.append(dict(op="restart", h=0, how="inproc"))
    else:
      ops.append(dict(op="query", h=0, method=r.choice(["transform", "pair_distance"]),
                      probe=dict(data="D0", seed=r.randrange(1000), m=3, kind="plain", via="formed")))
  return plan


_CP = {}


def cls_params(name):
  if name not in _CP:
    import inspect
    from .estimators import cls_of
    _CP[name] = set(inspect.signature(cls_of(name).__init__).parameters) - {"self"}
  return _CP[name]


# ------------------------------------------------------------------ shrinking

def history_shrink_moves(plan, violation):
  """Candidate simplifications of a history plan, smallest first."""
  import copy
  ops = plan["ops"]
  vi = violation.get("op")
  if vi is not None and vi + 1 < len(ops):
    p = copy.deepcopy(plan)
    p["ops"] = ops[:vi + 1]
    yield p
  n = len(ops)
  # drop contiguous blocks, then single ops
  size = max(1, n // 2)
  while size >= 1:
    for start in range(0, n, size):
      keep = ops[:start] + ops[start + size:]
      if not keep or len(keep) == n:
        continue
      p = copy.deepcopy(plan)
      p["ops"] = copy.deepcopy(keep)
      yield p
    size //= 2
  # drop handles other than the one in the failing op
  hs = sorted(set(o.get("h") for o in ops if "h" in o))
  for hdrop in hs:
    keep = [o for o in ops if o.get("h") != hdrop and o.get("h2") != hdrop]
    if keep and len(keep) < n:
      p = copy.deepcopy(plan)
      p["ops"] = copy.deepcopy(keep)
      yield p
  # simplify world
  if plan.get("world", {}).get("jumpy_clock") or plan.get("world", {}).get("fresh_restarts"):
    p = copy.deepcopy(plan)
    p["world"] = dict(jumpy_clock=False, fresh_restarts=0)
    yield p
  # reset hyper-parameters one at a time
  for i, o in enumerate(ops):
    if o["op"] in ("new", "set_params"):
      for k in sorted(o.get("params", {})):
        p = copy.deepcopy(plan)
        del p["ops"][i]["params"][k]
        yield p
    if o["op"] == "new" and o.get("pre"):
      p = copy.deepcopy(plan)
      p["ops"][i].pop("pre")
      p["ops"][i].pop("pre_data", None)
      yield p
    if o["op"] == "fit":
      if o.get("extras"):
        for k in sorted(o["extras"]):
          p = copy.deepcopy(plan)
          del p["ops"][i]["extras"][k]
          yield p
      if o.get("via") == "indices":
        p = copy.deepcopy(plan)
        p["ops"][i]["via"] = "formed"
        yield p
  # shrink datasets
  for dk, desc in sorted(plan["datasets"].items()):
    if desc.get("view_of"):
      continue
    for key, lo in (("n", 4 * desc["d"]), ("tuples", 8), ("extra", 0), ("classes", 2)):
      if key in desc and desc[key] > lo:
        p = copy.deepcopy(plan)
        p["datasets"][dk][key] = max(lo, desc[key] // 2) if key != "classes" else desc[key] - 1
        yield p
    for key in ("scale", "perm", "unknown"):
      if desc.get(key):
        p = copy.deepcopy(plan)
        p["datasets"][dk].pop(key)
        yield p
  used = set(o.get("data") for o in ops) | set(o.get("pre_data") for o in ops) | \
      set((o.get("probe") or {}).get("data") for o in ops)
  for dk in sorted(plan["datasets"]):
    if dk not in used and len(plan["datasets"]) > 1:
      p = copy.deepcopy(plan)
      del p["datasets"][dk]
      yield p
