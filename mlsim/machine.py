"""The history machine: executes a plan (a list of API operations, faults and
perturbations on live estimator handles) against the real metric-learn code,
records one event per op and calls the property's oracles after every op."""
import collections
import copy
import os
import pickle
import subprocess
import sys
import tempfile

import numpy as np

from . import world, VERIF
from .core import (digest, state_digest, fitted_state, log_digest, np_stream,
                   Violation, Inconclusive, h64)
from .data import make_data
from .estimators import (SPEC, cls_of, Resolver, fit_args, tuple_size, is_arr)

QUERY_METHODS = ["transform", "pair_distance", "pair_score", "score_pairs",
                 "predict", "decision_function", "score",
                 "get_mahalanobis_matrix", "metric_call"]


class Handle(object):
  def __init__(self, hid, name):
    self.hid = hid
    self.name = name
    self.est = None
    self.params_desc = {}
    self.pristine_params = {}     # deep copies taken before any fit saw them
    self.pre = None               # None | ndarray | list | store
    self.pre_data = None
    self.store = None
    self.defined = False          # a successful well-formed fit is current
    self.last_fit = None          # dict(op=..., data=..., )
    self.thr_writer = None        # ('fit'|'set'|'calibrate', info)
    self.thr_ops = []             # threshold writers since the last fit
    self.n_fits = 0
    self.n_ok_fits = 0            # fits that returned
    self.n_interrupted = 0        # fits the simulator interrupted
    self.dirty = False            # set_params since the last fit
    self.d_fit = None
    self.history = []


class Machine(object):

  def __init__(self, plan, oracles=()):
    self.plan = plan
    self.R = Resolver()
    self.pristine_arrays = {}
    self.data = {}
    self.handles = {}
    self.events = []
    self.cov = collections.Counter()
    self.oracles = list(oracles)
    self.handouts = []
    self.buffers = {}
    self.mutations = []            # caller-side edits of a point store, in order: (key, op)
    self.shared_stores = {}
    self.inconclusive = []
    self.violation = None
    self.clock = world.SimClock(plan.get("run_seed", 0),
                                jumpy=plan.get("world", {}).get("jumpy_clock", False))
    self.seam_missing = []
    self.op_index = -1
    self.fresh_budget = plan.get("world", {}).get("fresh_restarts", 0)
    self.fresh_ref_budget = 1       # reference fits in a brand-new interpreter, per run
    # every dataset of the plan exists before the first operation (bases before the
    # views into them): what the caller edits later is edited in all of them alike
    for k_ in sorted(plan.get("datasets", {}), key=lambda x: bool(plan["datasets"][x].get("view_of"))):
      try:
        self.dataset(k_)
      except Exception:
        pass

  # ------------------------------------------------------------- resources
  def dataset(self, key):
    if key not in self.data:
      desc = self.plan["datasets"][key]
      live = None
      if desc.get("view_of"):
        from .core import canon
        want = canon(desc["view_of"])
        for k2, d2 in self.plan["datasets"].items():
          if k2 != key and not d2.get("view_of") and canon(d2) == want:
            live = self.dataset(k2)       # the view shares memory with the live base store
            break
      self.data[key] = make_data(desc, live_base=live)
    return self.data[key]

  def resolve(self, v):
    if is_arr(v):
      obj = self.R.get(v)
      k = id(obj)
      if k not in self.pristine_arrays:
        self.pristine_arrays[k] = (obj, copy.deepcopy(obj), digest(obj),
                                   v["$arr"]["kind"])
      return obj
    return v

  def resolve_params(self, p):
    return {k: self.resolve(v) for k, v in p.items()}

  def check_shared_arrays(self):
    """Every array handed to the SUT as hyper-parameter / extra must still
    have the bytes it had when it was created."""
    bad = []
    for k, (obj, prist, dg, kind) in self.pristine_arrays.items():
      if digest(obj) != dg:
        bad.append(kind)
    return bad

  # ----------------------------------------------------------------- probes
  def probe(self, spec, name):
    """Build query data for estimator `name` (tuple size by method)."""
    D = self.dataset(spec["data"])
    rs = np_stream(spec.get("seed", 0), "probe")
    m = int(spec.get("m", 5))
    kind = spec.get("kind", "mixed")
    t = spec.get("t", 2)
    idx = rs.randint(0, min(D.N, int(spec["cap"])) if spec.get("cap") else D.N, size=(m, t))
    if spec.get("neg"):
      # X[indices] semantics: a negative indicator counts from the end
      idx = np.where(rs.rand(m, t) < 0.4, idx - D.N, idx)
    if kind in ("dups", "mixed") and m >= 3:
      idx[0, :] = idx[0, 0]              # identical points
      idx[1] = idx[2]                    # duplicated tuple
      if t == 2 and m >= 4:
        idx[3] = idx[2][::-1]            # swapped pair
      if t == 3 and m >= 4:
        idx[3, 2] = idx[3, 1]            # b == c: exact tie d(a,b) == d(a,c)
      if t == 4 and m >= 4:
        idx[3, 2:] = idx[3, :2]          # (c,d) == (a,b): exact tie
      if t == 4 and m >= 5:
        idx[4, 2:] = idx[4, 1::-1]       # (c,d) == (b,a)
    return D, idx

  # ------------------------------------------------------------------- run
  def run(self):
    ops = self.plan["ops"]
    with world.RunWarnings(), world.ClockSeam(self.clock) as cs:
      self.seam_missing += cs.missing
      for i, op in enumerate(ops):
        self.op_index = i
        try:
          ev, live = self.step(op)
        except Violation as v:
          self.violation = dict(oracle=v.oracle, sig=v.sig, detail=v.detail,
                                op=i)
          self.events.append(dict(i=i, op=op.get("op"), violation=v.sig))
          break
        self.events.append(ev)
        try:
          for o in self.oracles:
            o.after(self, op, ev, live)
        except Violation as v:
          self.violation = dict(oracle=v.oracle, sig=v.sig, detail=v.detail,
                                op=i)
          ev["violation"] = v.sig
          break
        except Inconclusive as e:
          self.inconclusive.append(e.reason)
    self.cov["ops"] += len(self.events)
    self.cov["clock_reads"] += self.clock.reads
    self.cov["clock_jumps"] += self.clock.jumps
    world.EIGSH.mode = "seeded"
    return self

  def result(self, shape, nontrivial):
    res = dict(digest=log_digest(self.events), violation=self.violation,
               inconclusive=sorted(set(self.inconclusive)), cov=dict(self.cov),
               shape=shape, nontrivial=bool(nontrivial), events=self.events)
    if self.seam_missing:
      res["cov"]["seam_missing"] = len(self.seam_missing)
    return res

  # ------------------------------------------------------------------ steps
  def step(self, op):
    kind = op["op"]
    fn = getattr(self, "op_" + kind)
    ev = dict(i=self.op_index, op=kind)
    if "h" in op:
      ev["h"] = op["h"]
    live = dict()
    eig0 = (world.EIGSH.calls, world.EIGSH.forced, world.EIGSH.eigh_forced)
    hh = self.handles.get(op.get("h"))
    if hh is not None and hh.est is not None:
      try:
        live["gp_before"] = {k: digest(v) for k, v in
                             hh.est.get_params(deep=False).items()}
      except Exception:
        live["gp_before"] = None
    with world.observed() as wl:
      fn(op, ev, live)
    live["warnings"] = list(wl)
    ev["warn"] = world.warn_cats(wl)
    if world.EIGSH.calls != eig0[0]:
      ev["eigsh"] = [world.EIGSH.calls - eig0[0], world.EIGSH.forced - eig0[1]]
      self.cov["eigsh_calls"] += ev["eigsh"][0]
      self.cov["eigsh_forced_noconv"] += ev["eigsh"][1]
      self.cov["eigh_forced_linalgerror"] += world.EIGSH.eigh_forced - eig0[2]
    self.cov["op_" + kind] += 1
    return ev, live

  def _call(self, ev, live, f, *a, **k):
    """Invoke SUT code, classify the outcome, digest the output."""
    try:
      out = f(*a, **k)
    except (Exception, world.SimInterrupt) as e:
      ev["outcome"] = "exc:" + type(e).__name__
      live["exc"] = e
      live["out"] = None
      return None
    ev["outcome"] = "ok"
    live["exc"] = None
    live["out"] = out
    return out

  # -- construction / params
  def op_new(self, op, ev, live):
    h = Handle(op["h"], op["cls"])
    ev["cls"] = op["cls"]
    params = self.resolve_params(op.get("params", {}))
    h.params_desc = dict(op.get("params", {}))
    pre = op.get("pre")
    if pre:
      D = self.dataset(op["pre_data"])
      h.pre_data = op["pre_data"]
      if pre == "ndarray":
        h.pre = D.S
      elif pre == "list":
        h.pre = D.S.tolist()
      elif pre == "store":
        shared = self.shared_stores.get(op["pre_data"]) if op.get("share_store") else None
        if shared is not None:
          h.store = shared            # two estimators read through the same callable object
          self.cov["stores_shared_between_handles"] += 1
        else:
          h.store = world.PointStore(D.S, mixed=bool(D.desc.get("int_rows")), returns=D.desc.get("store_returns"))
          self.shared_stores.setdefault(op["pre_data"], h.store)
        h.pre = h.store
      params["preprocessor"] = h.pre
      ev["pre"] = pre
    h.pristine_params = {k: copy.deepcopy(v) for k, v in params.items()
                         if k != "preprocessor"}
    live["params"] = params
    est = self._call(ev, live, cls_of(op["cls"]), **params)
    h.est = est
    self.handles[op["h"]] = h
    live["handle"] = h

  def op_set_params(self, op, ev, live):
    h = self.handles.get(op["h"])
    if h is None or h.est is None:
      ev["outcome"] = "skip"
      return
    params = self.resolve_params(op.get("params", {}))
    new_pre = None
    if "pre" in op:        # swap the preprocessor (only generated right before a refit)
      D = self.dataset(op["pre_data"]) if op["pre"] else None
      if op["pre"] == "ndarray":
        new_pre = (D.S, None)
      elif op["pre"] == "list":
        new_pre = (D.S.tolist(), None)
      elif op["pre"] == "store":
        st = world.PointStore(D.S, mixed=bool(D.desc.get("int_rows")), returns=D.desc.get("store_returns"))
        new_pre = (st, st)
      else:
        new_pre = (None, None)
      params["preprocessor"] = new_pre[0]
      ev["pre"] = op["pre"]
    live["params"] = params
    live["handle"] = h
    live["dist_before"] = None
    self._call(ev, live, h.est.set_params, **params)
    if new_pre is not None and ev["outcome"] == "ok":
      h.pre, h.store = new_pre
      h.pre_data = op["pre_data"] if op["pre"] else None
      h.defined = False     # queries are undefined until the next fit
      params = {k: v for k, v in params.items() if k != "preprocessor"}
    h.dirty = True
    if ev["outcome"] == "ok":
      h.params_desc.update(op.get("params", {}))
      for k, v in params.items():
        h.pristine_params[k] = copy.deepcopy(v)
      ev["params"] = sorted(params)

  # -- fit
  def build_fit(self, h, op):
    D = self.dataset(op["data"])
    via = op.get("via", "formed")
    if via == "indices" and (h.pre is None or h.pre_data != op["data"]):
      via = "formed"
    args = list(fit_args(h.name, D, via, op.get("y_kind", "full")))
    if op.get("variant"):
      args = apply_variant_args(args, op["variant"], via)
    if op.get("buffer") and not op.get("malformed"):
      # the caller re-uses the same array objects (data / indicators and
      # labels) for successive fits - other content, same objects: what an
      # estimator learns must depend on the content only
      reused = 0
      for i_, a_ in enumerate(args):
        key = "%s#%d#%s" % (op["buffer"], i_, via)
        a0 = np.asarray(a_)
        buf = self.buffers.get(key)
        if buf is not None and buf.shape == a0.shape and buf.dtype == a0.dtype:
          np.copyto(buf, a0)
          args[i_] = buf
          reused += 1
        else:
          args[i_] = a0
          self.buffers[key] = a0
      self.cov["caller_buffer_reused"] += int(reused > 0)
    mal = op.get("malformed")
    if mal == "nan":
      a0 = np.array(args[0], dtype=float)
      a0.flat[a0.size // 2] = np.nan
      args[0] = a0
    elif mal == "short_y" and len(args) > 1:
      args[1] = args[1][:-1]
    kwargs = {}
    ex = op.get("extras", {})
    if "bounds" in ex and h.name in ("ITML", "ITML_Supervised"):
      kwargs["bounds"] = self.resolve(ex["bounds"])
    if "weights" in ex and h.name == "LSML":
      kwargs["weights"] = self.resolve(ex["weights"])
    if "calibration_params" in ex and h.name in ("ITML", "MMC", "SDML"):
      kwargs["calibration_params"] = dict(ex["calibration_params"])
    return D, via, args, kwargs

  def _count_crash_points(self, h, args, kwargs):
    """Dry run of the same fit, counting the line events inside metric_learn:
    the points at which the real call can be interrupted.  The dry run happens
    in a *forked child process* on copies of the estimator and its arguments,
    so that it leaves no trace whatsoever in this process - neither in the
    ambient RNG state nor in module-level state of the library or of its
    dependencies (a cache filled by the dry run would hide exactly the defects
    crash points are there to find)."""
    rfd, wfd = os.pipe()
    pid = os.fork()
    if pid == 0:
      code = 0
      try:
        os.close(rfd)
        import signal
        signal.setitimer(signal.ITIMER_PROF, 0)
        signal.alarm(120)
        n, funcs = 0, []
        try:
          with world.observed(), world.LineInterrupter() as li0:
            try:
              h.est.fit(*args, **kwargs)
            except (Exception, world.LineInterrupter.StopCount):
              pass
          n = li0.n
          funcs = list(li0.by_func.values())
        except BaseException:
          n, funcs = 0, []
        with os.fdopen(wfd, "wb") as f:
          pickle.dump((n, funcs), f, protocol=4)
      except BaseException:
        code = 1
      finally:
        os._exit(code)
    os.close(wfd)
    n, funcs = 0, []
    try:
      with os.fdopen(rfd, "rb") as f:
        data = f.read()
      os.waitpid(pid, 0)
      if data:
        n, funcs = pickle.loads(data)
    except Exception:
      n, funcs = 0, []
    if n >= world.LineInterrupter.CAP:
      self.cov["crash_points_capped"] += 1
    return n, funcs

  def op_fit(self, op, ev, live):
    h = self.handles.get(op["h"])
    if h is None or h.est is None:
      ev["outcome"] = "skip"
      return
    D, via, args, kwargs = self.build_fit(h, op)
    if not op.get("buffer") and not op.get("malformed") and \
        h64("readonly", self.plan.get("run_seed", 0), self.op_index) % 6 == 0:
      # the caller's arrays are read-only (memory-mapped file, frozen array): legal input
      frozen = []
      for a in args:
        if isinstance(a, np.ndarray):
          a = np.array(a, copy=True)
          a.setflags(write=False)
        frozen.append(a)
      args = tuple(frozen)
      ev["readonly_args"] = True
      self.cov["fits_on_readonly_arrays"] += 1
    ev.update(cls=h.name, data=op["data"], via=via)
    live.update(handle=h, D=D, via=via, args=args, kwargs=kwargs,
                malformed=op.get("malformed"))
    arg_dg = [digest(a) for a in args] + [digest(kwargs[k]) for k in sorted(kwargs)]
    amb0 = world.ambient_snapshot()
    store_calls0 = len(h.store.calls) if h.store else 0
    live["state_before"] = state_digest(h.est)
    fired0 = len(h.store.fired) if h.store else 0
    intr = op.get("interrupt")
    li = None
    if intr:
      if intr.get("at") is not None:
        n_points, funcs = int(intr.get("n", 0)), []        # position enumerated by the plan itself
      else:
        n_points, funcs = self._count_crash_points(h, args, kwargs)
      at = int(intr["at"]) if intr.get("at") is not None else \
          min(int(float(intr.get("frac", 0.5)) * n_points), max(n_points - 1, 0))
      if intr.get("func") is not None and funcs:
        # stratified by function: first a function the call passes through, then a
        # line event inside it - short phases get the same share as long loops
        lst = funcs[min(int(float(intr["func"]) * len(funcs)), len(funcs) - 1)]
        at = lst[min(int(float(intr.get("frac", 0.5)) * len(lst)), len(lst) - 1)]
        self.cov["interrupts_by_function"] += 1
      li = world.LineInterrupter(at=at, exc=intr.get("exc", "KeyboardInterrupt"))
    with world.DrawObserver() as obs, world.GlassoSeam() as gs, world.ConvertObserver() as co:
      if li is not None:
        with li:
          out = self._call(ev, live, h.est.fit, *args, **kwargs)
      else:
        out = self._call(ev, live, h.est.fit, *args, **kwargs)
    if type(live.get("exc")).__name__ == "NonPSDError":
      live["psd_within_rounding"] = co.psd_within_rounding()
    live["fault_fired"] = bool(h.store and len(h.store.fired) > fired0)
    if li is not None:
      ev["interrupt"] = [li.at, n_points, li.exc, li.where]
      self.cov["interrupts_armed"] += 1
      if li.fired:
        live["fault_fired"] = True
        live["interrupted"] = True
        self.cov["interrupts_fired"] += 1
        self.cov["interrupt_in_" + str(li.where).split(":")[0]] += 1
        if ev["outcome"] == "ok":
          # the library swallowed the interruption (an except clause on the
          # way): the call returned, but nothing is asserted about its result
          ev["outcome"] = "swallowed"
          self.cov["interrupts_swallowed"] += 1
    if live["fault_fired"]:
      ev["fault_fired"] = True
      self.cov["faults_fired"] += 1
    if h.store:
      h.store.disarm()
    self.seam_missing += obs.missing
    live["solver_calls"] = len(gs.calls)
    live["rng_requests"] = len(obs.created)
    live["draws"] = obs.total_draws()
    live["draw_streams"] = [r.stream_digest() for r in obs.created]
    ev["draws"] = live["draws"]
    if live["draws"]:
      self.cov["fits_with_draws"] += 1
    live["ambient_touched"] = (world.ambient_snapshot() != amb0)
    arg_dg2 = [digest(a) for a in args] + [digest(kwargs[k]) for k in sorted(kwargs)]
    live["args_modified"] = [i for i, (x, y) in enumerate(zip(arg_dg, arg_dg2))
                             if x != y]
    live["arg_names"] = ["arg%d" % i for i in range(len(args))] + sorted(kwargs)
    if h.store:
      ev["store_calls"] = len(h.store.calls) - store_calls0
    h.n_fits += 1
    h.dirty = False
    h.last_fit_args = args if via == "indices" or True else None
    ok = ev["outcome"] == "ok"
    if ok or ev["outcome"] == "swallowed":
      h.n_ok_fits += 1
    if live.get("interrupted"):
      h.n_interrupted += 1
    if ok and not op.get("malformed"):
      h.defined = True
      h.last_fit = dict(op=op, via=via, d=D.d)
      h.d_fit = D.d
      h.thr_ops = []
      ev["state"] = state_digest(h.est)
      self.cov["fit_ok"] += 1
      self.cov["fit_ok_" + h.name] += 1
      if h.n_fits > 1:
        self.cov["refits"] += 1
    else:
      h.defined = False
      self.cov["fit_failed"] += 1
      if live.get("exc") is not None:
        ev["msg"] = str(live["exc"])[:120]

  # -- thresholds
  def _threshold_value(self, h, spec):
    k = spec["kind"]
    if k == "float":
      return float(spec["v"])
    if k == "int":
      return int(spec["v"])
    if k == "npfloat":
      return np.float32(spec["v"])
    if k == "np0d":
      return np.array(float(spec["v"]))
    if k == "str":
      return str(spec["v"])            # float('1.5') works: legal input
    if k == "bad":
      return {"x": "x", "none": None, "list": [1.0, 2.0], "obj": object()}[spec["v"]]
    if k == "dist":
      D, idx = self.probe(dict(spec["probe"], t=2), h.name)
      pairs = D.S[idx]
      d = -h.est.decision_function(pairs)
      return float(d[int(spec.get("i", 0)) % len(d)])
    raise ValueError(k)

  def op_set_threshold(self, op, ev, live):
    h = self.handles.get(op["h"])
    if h is None or h.est is None or not hasattr(h.est, "set_threshold"):
      ev["outcome"] = "skip"
      return
    live["handle"] = h
    live["state_before"] = state_digest(h.est)
    try:
      val = self._threshold_value(h, op["value"])
    except Exception as e:
      ev["outcome"] = "skip"
      return
    live["value"] = val
    ev["vkind"] = op["value"]["kind"]
    self._call(ev, live, h.est.set_threshold, val)
    if ev["outcome"] == "ok":
      h.thr_ops.append(("set", val))
      ev["thr"] = float(h.est.threshold_).hex() if hasattr(h.est, "threshold_") else None

  def op_sweep(self, op, ev, live):
    """set_threshold over an increasing list of values, predicting the same
    probe after each: the raw material of the monotonicity oracle."""
    h = self.handles.get(op["h"])
    if h is None or h.est is None or not hasattr(h.est, "set_threshold") \
        or not h.defined:
      ev["outcome"] = "skip"
      return
    live["handle"] = h
    D, idx = self.probe(dict(op["probe"], t=2), h.name)
    pairs = D.S[idx]
    try:
      vals = [self._threshold_value(h, v) for v in op["values"]]
    except Exception:
      ev["outcome"] = "skip"
      return
    vals = sorted(vals, key=float)
    rec = []
    ev["outcome"] = "ok"
    for v in vals:
      try:
        h.est.set_threshold(v)
        rec.append((v, h.est.threshold_, h.est.predict(pairs),
                    -h.est.decision_function(pairs)))
      except Exception as e:
        ev["outcome"] = "exc:" + type(e).__name__
        live["exc"] = e
        break
    if rec:
      h.thr_ops.append(("set", rec[-1][0]))
    live["sweep"] = rec
    ev["out"] = digest([[float(r[1]), r[2]] for r in rec])

  def calib_data(self, h, op):
    D = self.dataset(op["data"])
    rs = np_stream(op.get("seed", 0), "calib")
    m = int(op.get("m", 8))
    idx = rs.randint(0, D.N, size=(m, 2))
    y = np.where(D.yS[idx[:, 0]] == D.yS[idx[:, 1]], 1, -1)
    flip = rs.rand(m) < float(op.get("noise", 0.2))
    y = np.where(flip, -y, y)
    if op.get("dups") and m >= 4:
      idx[1] = idx[0]
      y[1] = -y[0]                 # duplicated pair with conflicting labels
      idx[2, 1] = idx[2, 0]        # zero distance
    if len(set(y.tolist())) < 2:
      y[0], y[-1] = 1, -1
    via = op.get("via", "formed")
    if via == "indices" and (h.pre is None or h.pre_data != op["data"]):
      via = "formed"
    pairs = idx.copy() if via == "indices" else D.S[idx]
    if op.get("near_ties") and via == "formed" and m >= 4 and np.asarray(pairs).dtype.kind == "f":
      pairs = np.array(pairs, copy=True)
      y = np.array(y, copy=True)
      rn = np_stream(op.get("seed", 0), "calib-near")
      half = m // 2
      sc = float(np.abs(D.S).max()) or 1.0
      for j in range(half, m):
        i = j - half
        if rn.rand() < 0.5:
          pairs[j] = pairs[i] + rn.randn(pairs.shape[-1]) * sc * rn.choice([1e-3, 0.1, 1.0])
        else:
          pairs[j] = pairs[i] * (1.0 + rn.randint(1, 4) * 2.0 ** -52)
        y[j] = -y[i] if rn.rand() < 0.7 else y[i]
      self.cov["calibration_sets_with_near_ties"] += 1
    if op.get("f32") and via == "formed" and np.asarray(pairs).dtype == np.float64:
      pairs = np.asarray(pairs).astype(np.float32)      # single-precision validation pairs
      self.cov["calibration_sets_float32"] += 1
    return D, pairs, y, via

  def op_calibrate(self, op, ev, live):
    h = self.handles.get(op["h"])
    if h is None or h.est is None or not hasattr(h.est, "calibrate_threshold"):
      ev["outcome"] = "skip"
      return
    op_eff = dict(op)
    bufs = getattr(h, "last_fit_args", None)
    if op.get("in_fit_buffers") and bufs and len(bufs) >= 2:
      op_eff["m"] = len(bufs[0])       # as many validation pairs as there were training pairs
    D, pairs, y, via = self.calib_data(h, op_eff)
    if op.get("in_fit_buffers") and bufs and len(bufs) >= 2:
      # the caller refills the very arrays it passed to fit with the validation
      # pairs and their labels: same objects, other content
      b0, b1 = bufs[0], bufs[1]
      p_, y_ = np.asarray(pairs), np.asarray(y)
      if isinstance(b0, np.ndarray) and isinstance(b1, np.ndarray) and b0.shape == p_.shape and \
          b0.dtype == p_.dtype and b1.shape == y_.shape and b1.dtype == y_.dtype and \
          b0.flags.writeable and b1.flags.writeable:
        np.copyto(b0, p_)
        np.copyto(b1, y_)
        pairs, y = b0, b1
        self.cov["calibration_in_fit_buffers"] += 1
    live["op_eff"] = op_eff
    cp = dict(op.get("cp", {}))
    live.update(handle=h, pairs=pairs, y=y, cp=cp, D=D, via=via,
                state_before=state_digest(h.est))
    store0 = len(h.store.calls) if h.store else 0
    dg = (digest(pairs), digest(y))
    fired0 = len(h.store.fired) if h.store else 0
    with world.DrawObserver() as obs:
      self._call(ev, live, h.est.calibrate_threshold, pairs, y, **cp)
    live["fault_fired"] = bool(h.store and len(h.store.fired) > fired0)
    if h.store:
      h.store.disarm()
    live["draws"] = obs.total_draws()
    live["rng_requests"] = len(obs.created)
    live["store_calls"] = (len(h.store.calls) - store0) if h.store else 0
    live["args_modified"] = [n for n, a, b in (("pairs_valid", dg[0], digest(pairs)),
                                               ("y_valid", dg[1], digest(y))) if a != b]
    ev["cp"] = sorted(cp.items(), key=lambda kv: kv[0])
    ev["cp"] = [[k, repr(v)] for k, v in ev["cp"]]
    if ev["outcome"] == "ok":
      h.thr_ops.append(("calibrate", dict(op_eff)))
      ev["thr"] = float(h.est.threshold_).hex()

  # -- queries
  def build_query(self, h, op):
    method = op["method"]
    spec = dict(op.get("probe", {}))
    if "data" not in spec:
      spec["data"] = (h.last_fit or {}).get("op", {}).get("data") or \
          next(iter(self.plan["datasets"]))
    ts = tuple_size(h.name)
    if method in ("pair_distance", "pair_score", "score_pairs"):
      t = 2
    elif method in ("predict", "decision_function", "score"):
      t = ts or 2
    else:
      t = 1
    spec["t"] = t
    D, idx = self.probe(spec, h.name)
    via = spec.get("via", "formed")
    if via == "indices" and (h.pre is None or h.pre_data != spec["data"]):
      via = "formed"
    if method == "transform":
      arg = idx[:, 0].copy() if via == "indices" else D.S[idx[:, 0]]
      if via == "formed" and spec.get("kind") == "random":
        rs = np_stream(spec.get("seed", 0), "rnd")
        arg = D.S.mean(axis=0) + rs.randn(len(idx), D.d) * (D.S.std() + 1.0)
      return D, (arg,), via
    if method in ("get_mahalanobis_matrix",):
      return D, (), via
    if method == "metric_call":
      return D, (D.S[idx[0, 0]], D.S[idx[-1, -1]]), "formed"
    arg = idx.copy() if via == "indices" else D.S[idx]
    if via == "formed":
      near = spec.get("near")
      if near and t >= 3 and len(arg) >= 2:
        # near ties: the compared distances differ by a tiny positive amount
        rs = np_stream(spec.get("seed", 0), "near")
        r_ = len(arg) - 1
        u = rs.randn(D.d)
        if t == 3:
          arg[r_, 2] = arg[r_, 1] + float(near) * u
        else:
          arg[r_, 2] = arg[r_, 0]
          arg[r_, 3] = arg[r_, 1] + float(near) * u
      if spec.get("grid"):
        if spec.get("huge") and method not in ("predict", "decision_function"):
          spec = dict(spec, huge=False)
        arg, info = _dyadic_probe(arg, D, t, spec)
        self._last_probe_info = info
        if spec.get("f32") and not spec.get("far") and not info.get("int64_far"):
          # the same tuples in single precision (grid points are exact in both)
          a32 = arg.astype(np.float32)
          if np.array_equal(a32.astype(float), arg):
            arg = a32
            info["f32"] = True
      lay = spec.get("layout")
      if lay == "F":
        arg = np.asfortranarray(arg)
      elif lay == "T":     # memory order (t, m, d): arg[:, j, :] is contiguous
        arg = np.ascontiguousarray(arg.transpose(1, 0, 2)).transpose(1, 0, 2)
    if method == "score" and t == 2:
      y = np.where(D.yS[idx[:, 0]] == D.yS[idx[:, 1]], 1, -1)
      if len(set(y.tolist())) < 2:
        y[0], y[-1] = 1, -1
      return D, (arg, y), via
    return D, (arg,), via

  def op_query(self, op, ev, live):
    h = self.handles.get(op["h"])
    if h is None or h.est is None:
      ev["outcome"] = "skip"
      return
    method = op["method"]
    ev["method"] = method
    live["handle"] = h
    if method not in ("metric_call",) and not hasattr(h.est, method):
      ev["outcome"] = "skip"
      return
    self._last_probe_info = None
    D, args, via = self.build_query(h, op)
    live.update(D=D, args=args, via=via, state_before=state_digest(h.est))
    if self._last_probe_info:
      live["probe_info"] = self._last_probe_info
    dg = [digest(a) for a in args]
    store0 = len(h.store.calls) if h.store else 0
    if method == "metric_call":
      def f(u, v):
        fn = h.est.get_metric()
        return (fn(u, v), fn(u, v, squared=True))
    else:
      f = getattr(h.est, method)
    fired0 = len(h.store.fired) if h.store else 0
    out = self._call(ev, live, f, *args)
    live["fault_fired"] = bool(h.store and len(h.store.fired) > fired0)
    if live["fault_fired"]:
      ev["fault_fired"] = True
      self.cov["faults_fired"] += 1
    if h.store:
      h.store.disarm()
    live["args_modified"] = [i for i, (a, b) in
                             enumerate(zip(dg, [digest(a) for a in args])) if a != b]
    live["store_calls"] = (len(h.store.calls) - store0) if h.store else 0
    ev["via"] = via
    if ev["outcome"] == "ok":
      ev["out"] = digest(out)
      self.cov["query_ok"] += 1
    live["state_after"] = state_digest(h.est)

  # -- handed-out objects
  def op_handout(self, op, ev, live):
    h = self.handles.get(op["h"])
    if h is None or h.est is None or not h.defined:
      ev["outcome"] = "skip"
      return
    what = op["what"]
    D = self.dataset(h.last_fit["op"]["data"])
    rs = np_stream(op.get("seed", 0), "handout")
    pts = D.S[rs.randint(0, D.N, size=(4, 2))]
    if what == "metric":
      fn = self._call(ev, live, h.est.get_metric)
      if ev["outcome"] != "ok":
        return
      vals = [fn(u, v) for u, v in pts]
      self.handouts.append(dict(what="metric", obj=fn, pts=pts.copy(),
                                vals=vals, h=op["h"]))
    else:
      M = self._call(ev, live, h.est.get_mahalanobis_matrix)
      if ev["outcome"] != "ok":
        return
      self.handouts.append(dict(what="M", obj=M, copy=M.copy(), h=op["h"],
                                mutated=False))
    ev["what"] = what
    self.cov["handouts"] += 1

  def op_mutate_handout(self, op, ev, live):
    ms = [x for x in self.handouts if x["what"] == "M"]
    if not ms:
      ev["outcome"] = "skip"
      return
    x = ms[-1] if op.get("last") else ms[op.get("k", 0) % len(ms)]
    live["handle"] = self.handles.get(x["h"])
    live["state_before"] = state_digest(live["handle"].est)
    live["dist_probe"] = None
    x["obj"][:] = float(op.get("fill", -7.0))
    x["copy"] = x["obj"].copy()
    x["mutated"] = True
    ev["outcome"] = "ok"
    live["state_after"] = state_digest(live["handle"].est)
    self.cov["handout_mutations"] += 1

  def handouts_intact(self):
    """Names of handed-out objects whose recorded values changed."""
    bad = []
    for x in self.handouts:
      if x["what"] == "metric":
        try:
          now = [x["obj"](u, v) for u, v in x["pts"]]
        except Exception as e:
          # it answered for these very vectors when it was handed out
          bad.append("metric_fun_now_raises_%s" % type(e).__name__)
          continue
        if digest(now) != digest(x["vals"]):
          bad.append("metric_fun")
      else:
        if digest(x["obj"]) != digest(x["copy"]):
          bad.append("mahalanobis_matrix")
    return bad

  # -- restart / clone
  def op_restart(self, op, ev, live):
    h = self.handles.get(op["h"])
    if h is None or h.est is None:
      ev["outcome"] = "skip"
      return
    live["handle"] = h
    live["state_before"] = state_digest(h.est)
    how = op.get("how", "inproc")
    probes = self._restart_probes(h)
    live["before_out"] = _run_probes(h.est, probes)
    if how == "fresh" and self.fresh_budget > 0:
      self.fresh_budget -= 1
      new, outs, err = fresh_restart(h.est, probes)
      if err:
        ev["outcome"] = "exc:fresh:" + err[:60]
        live["exc"] = RuntimeError(err)
        return
      live["fresh_out"] = outs
      self.cov["restart_fresh"] += 1
      ev["how"] = "fresh"
    else:
      try:
        new, nbytes = world.restart_inproc(h.est)
      except Exception as e:
        ev["outcome"] = "exc:" + type(e).__name__
        live["exc"] = e
        return
      ev["how"] = "inproc"
      self.cov["restart_inproc"] += 1
    ev["outcome"] = "ok"
    live["old_est"] = h.est
    h.est = new
    if h.store is not None:
      # the unpickled estimator carries its own copy of the store
      st = getattr(new, "preprocessor", None)
      if isinstance(st, world.PointStore):
        h.store = st
        h.pre = st
    elif h.pre is not None:
      # ... and its own copy of an array / nested-list preprocessor: that copy is
      # now the container "the caller" holds for this estimator
      pnew = getattr(new, "preprocessor", None)
      if isinstance(pnew, (np.ndarray, list)):
        h.pre = pnew
    live["state_after"] = state_digest(h.est)
    live["after_out"] = _run_probes(h.est, probes)

  def _restart_probes(self, h):
    """Query calls whose outputs must survive a restart bit for bit."""
    probes = []
    if not h.defined:
      return probes
    D = self.dataset(h.last_fit["op"]["data"])
    rs = np_stream(self.op_index, "restart-probe")
    idx = rs.randint(0, D.N, size=(5, 4))
    probes.append(("transform", (D.S[idx[:, 0]],)))
    probes.append(("pair_distance", (D.S[idx[:, :2]],)))
    probes.append(("pair_score", (D.S[idx[:, :2]],)))
    probes.append(("get_mahalanobis_matrix", ()))
    ts = tuple_size(h.name)
    if ts:
      probes.append(("decision_function", (D.S[idx[:, :ts]],)))
      probes.append(("predict", (D.S[idx[:, :ts]],)))
    return probes

  def op_clone(self, op, ev, live):
    from sklearn.base import clone
    h = self.handles.get(op["h"])
    if h is None or h.est is None:
      ev["outcome"] = "skip"
      return
    new = self._call(ev, live, clone, h.est)
    live["handle"] = h
    if ev["outcome"] != "ok":
      return
    h2 = Handle(op["h2"], h.name)
    h2.est = new
    h2.params_desc = dict(h.params_desc)
    h2.pristine_params = {k: copy.deepcopy(v) for k, v in h.pristine_params.items()}
    h2.pre, h2.pre_data = h.pre, h.pre_data
    p = getattr(new, "preprocessor", None)
    if isinstance(p, world.PointStore):
      h2.store = p
      h2.pre = p
    elif isinstance(p, (np.ndarray, list)):
      h2.pre = p          # clone() copies array-like parameters: the clone reads through its own copy
    self.handles[op["h2"]] = h2
    live["handle2"] = h2
    self.cov["clones"] += 1

  # -- deprecated constructor aliases, in a process that has a history
  def op_alias_new(self, op, ev, live):
    """Construct a throw-away estimator through a deprecated alias parameter."""
    live["alias"] = (op["cls"], op["alias"], op["repl"], op["value"])
    est = self._call(ev, live, cls_of(op["cls"]), **{op["alias"]: op["value"]})
    live["alias_est"] = est
    ev["cls"] = op["cls"]
    ev["alias"] = op["alias"]
    self.cov["alias_constructions_in_history"] += 1

  # -- the caller edits its own data
  def op_mutate_store(self, op, ev, live):
    """The caller edits the point store of a dataset *in place* (same ndarray,
    same nested list, same table behind the callable): the estimators that read
    through it are only asserted again after their next fit; everybody else
    must be unaffected."""
    key = op["data"]
    desc = self.plan["datasets"].get(key)
    if desc is None or desc.get("view_of"):
      ev["outcome"] = "skip"
      return
    D = self.dataset(key)
    mutate_points(D.S, op)
    self.mutations.append((key, dict(op)))
    for k2, D2 in self.data.items():
      D2.X = D2.S[D2.pidx]
    for hh in self.handles.values():
      if hh.pre_data is None:
        continue
      d2 = self.plan["datasets"].get(hh.pre_data, {})
      same = hh.pre_data == key or (d2.get("view_of") and self.data.get(hh.pre_data) is not None and
                                    np.shares_memory(self.data[hh.pre_data].S, D.S))
      if not same:
        continue
      src = self.dataset(hh.pre_data).S
      if isinstance(hh.pre, list):
        for i_ in range(len(hh.pre)):
          hh.pre[i_] = src[i_].tolist()        # rows reassigned in place: the same list object
      elif isinstance(hh.pre, np.ndarray) and not np.shares_memory(hh.pre, src):
        hh.pre[...] = src                      # a container of its own (after a pickle restart)
      elif isinstance(hh.pre, world.PointStore) and not np.shares_memory(hh.pre.X, src):
        hh.pre.X[...] = src
      hh.defined = False
    ev["outcome"] = "ok"
    self.cov["store_mutated_in_place"] += 1

  def pristine_dataset(self, key):
    """The dataset as the caller has it now, rebuilt from its descriptor: a
    fresh regeneration plus the caller's recorded in-place edits."""
    desc = self.plan["datasets"][key]
    if desc.get("view_of"):
      from .core import canon
      want = canon(desc["view_of"])
      for k2, d2 in self.plan["datasets"].items():
        if k2 != key and not d2.get("view_of") and canon(d2) == want:
          # as in the live world: the view (with its labels and targets) exists
          # first, the caller's edits of the base array come afterwards
          base = make_data(d2)
          Dv = make_data(desc, live_base=base)
          for k3, mop in self.mutations:
            if k3 == k2:
              mutate_points(base.S, mop)
          Dv.X = Dv.S[Dv.pidx]
          return Dv
      return make_data(desc)
    D = make_data(desc)
    for k2, mop in self.mutations:
      if k2 == key:
        mutate_points(D.S, mop)
    D.X = D.S[D.pidx]
    return D

  # -- world ops
  def op_ambient(self, op, ev, live):
    world.perturb_ambient(op.get("seed", 0), op.get("draws", 3))
    ev["outcome"] = "ok"

  def op_eigsh(self, op, ev, live):
    world.EIGSH.mode = op.get("mode", "seeded")
    world.EIGSH.seed = int(op.get("seed", 1))
    ev["outcome"] = "ok"
    ev["mode"] = world.EIGSH.mode

  def op_arm_fault(self, op, ev, live):
    h = self.handles.get(op["h"])
    if h is None or h.store is None:
      ev["outcome"] = "skip"
      return
    h.store.arm(op["at"], op["exc"])
    ev["outcome"] = "ok"
    ev["at"] = op["at"]
    ev["exc"] = op["exc"]
    self.cov["faults_armed"] += 1


def mutate_points(S, op):
  """In-place edit of a point store (deterministic in the op)."""
  rs = np_stream(op.get("seed", 0), "mutate-store")
  n, d = S.shape
  rows = np.arange(n) if op.get("how") == "all" else np.where(rs.rand(n) < 0.5)[0]
  S[rows] = S[rows] * rs.uniform(0.5, 2.0, size=d) + rs.randn(d) * (np.abs(S).std() + 1e-300) * 0.5


def apply_variant_args(args, spec, via):
  """Another legal presentation of the same training set: rows listed in
  another order (all arguments permuted alike) and, for formed data, other
  units / slightly moved points."""
  args = list(args)
  if spec.get("perm") is not None and len(args):
    n0 = len(args[0])
    o = np_stream(spec["perm"], "variant-perm").permutation(n0)
    args = [np.asarray(a)[o] if hasattr(a, "__len__") and len(a) == n0 else a for a in args]
  if via == "formed" and (spec.get("scale", 1.0) != 1.0 or spec.get("noise")):
    args[0] = apply_variant(args[0], spec)
  return args


def apply_variant(A, spec):
  """The same points in other units and slightly moved: A * scale + noise
  (still well-formed training data; deterministic in the spec)."""
  A = np.array(A, dtype=float, copy=True)
  rs = np_stream(spec.get("seed", 0), "variant")
  sc = float(spec.get("scale", 1.0))
  A *= sc
  nz = float(spec.get("noise", 0.0))
  if nz:
    A += rs.randn(*A.shape) * nz * (np.abs(A).std() + 1e-300)
  return A


def _dyadic_probe(arg, D, t, spec):
  """Snap a formed probe onto a dyadic grid (so that sums and differences of
  its points are exact in floating point) and build, by translation, tuples
  whose compared distances are *exactly* equal whatever the learned metric:
    pairs       rows 2k, 2k+1:  (a, a+v), (a+s, a+s-v)
    triplets    (a, a+v, a-v)
    quadruplets (a, b, a+s, b+s)  and  (a, b, b+s, a+s)
  With spec['far'] = e every point of a row is moved by the same offset of
  magnitude 2^e grid steps (still exactly representable): the distances do not
  change, but an implementation that loses the difference of large coordinates
  does."""
  arg = np.array(arg, dtype=float, copy=True)
  sc = float(np.median(np.abs(D.S[np.abs(D.S) > 0]))) if np.any(D.S != 0) else 1.0
  if not np.isfinite(sc) or sc <= 0:
    sc = 1.0
  step = 2.0 ** np.floor(np.log2(sc / 16.0))
  arg = np.clip(np.round(arg / step), -2.0 ** 20, 2.0 ** 20) * step
  m = len(arg)
  ties = []
  rs = np_stream(spec.get("seed", 0), "dyadic")
  if spec.get("ties", True):
    if t == 3:
      for i in range(m):
        if rs.rand() < 0.6:
          v = arg[i, 1] - arg[i, 0]
          arg[i, 2] = arg[i, 0] - v
          ties.append(i)
    elif t == 4:
      for i in range(m):
        u = rs.rand()
        if u < 0.6:
          s_ = arg[i, 2] - arg[i, 0]
          if u < 0.3:
            arg[i, 2], arg[i, 3] = arg[i, 0] + s_, arg[i, 1] + s_
          else:
            arg[i, 2], arg[i, 3] = arg[i, 1] + s_, arg[i, 0] + s_
          ties.append(i)
    elif t == 2:
      for i in range(0, m - 1, 2):
        if rs.rand() < 0.6:
          v = arg[i, 1] - arg[i, 0]
          s_ = arg[i + 1, 0] - arg[i, 0]
          arg[i + 1, 0] = arg[i, 0] + s_
          arg[i + 1, 1] = arg[i, 0] + s_ - v
          ties.append(i)
  far = spec.get("far")
  if far:
    for i in range(m):
      off = np.round(rs.uniform(-1, 1, size=arg.shape[-1]) * 2.0 ** int(far)) * step
      arg[i] = arg[i] + off          # the same offset for every point of the tuple
  huge_row = None
  if spec.get("huge") and m >= 2 and not far:
    # one tuple of the batch has a finite but astronomically long compared pair (its squared
    # learned distance overflows); what the call answers for the *other* tuples of the same
    # batch must not depend on that
    huge_row = m - 1
    u = np.sign(rs.randn(arg.shape[-1])) * 2.0 ** 700
    arg[huge_row, -1] = arg[huge_row, -1] + u       # b (pairs), c (triplets), d (quadruplets)
    ties = [i for i in ties if i != huge_row and not (t == 2 and i + 1 == huge_row)]
  if spec.get("int64_far") and not far and huge_row is None:
    # the same grid tuples as whole numbers (grid units) in int64, every tuple moved by its own
    # offset beyond 2**53 (absolute nanosecond time stamps): differences inside a tuple are small
    # and exact in integer arithmetic, but not after a conversion of the coordinates to float64
    argi = np.round(arg / step).astype(np.int64)
    for i in range(m):
      argi[i] += np.int64(2 ** 58) + rs.randint(0, 2 ** 40, size=arg.shape[-1]).astype(np.int64) * 257
    return argi, dict(ties=ties, far=0, step=1.0, huge_row=None, int64_far=True)
  return arg, dict(ties=ties, far=int(far or 0), step=step, huge_row=huge_row)


class ProbeOuts(list):
  """[(method, status, digest)] - equality is on the digests - plus the raw
  values, kept aside for the tolerance-based second look of same_outputs()."""
  values = None


def _run_probes(est, probes):
  outs = ProbeOuts()
  outs.values = []
  for m, args in probes:
    try:
      v = getattr(est, m)(*args)
      outs.append((m, "ok", digest(v)))
      outs.values.append(np.array(v, copy=True))
    except Exception as e:
      outs.append((m, "exc:" + type(e).__name__, ""))
      outs.values.append(None)
  return outs


def same_outputs(a, b, cov=None):
  """Bit-identical, or identical up to the last-bit differences that BLAS kernels
  produce when the *same numbers* sit at another memory alignment (an unpickled
  array is a new buffer; seen for 60-dimensional data, never for d <= 8): same
  statuses, same shapes, integer outputs equal, floats within 1e-13 relative."""
  if list(a) == list(b):
    return True
  va, vb = getattr(a, "values", None), getattr(b, "values", None)
  if va is None or vb is None or len(a) != len(b):
    return False
  for (m1, s1, _), (m2, s2, _), x, y in zip(a, b, va, vb):
    if m1 != m2 or s1 != s2:
      return False
    if x is None or y is None:
      if (x is None) != (y is None):
        return False
      continue
    x, y = np.asarray(x), np.asarray(y)
    if x.shape != y.shape:
      return False
    if x.dtype.kind in "iub" or y.dtype.kind in "iub":
      if not np.array_equal(x, y):
        return False
    elif not np.allclose(x, y, rtol=1e-13, atol=1e-13 * (np.abs(x).max() + 1e-300) if x.size else 0.0, equal_nan=True):
      return False
  if cov is not None:
    cov["outputs_equal_up_to_blas_alignment"] += 1
  return True


def layout_signature(est):
  """Memory layout of the fitted arrays (not their content): pickling turns any
  array into a C- or F-contiguous one, so an estimator that stores a strided view
  comes back with another layout - and BLAS then rounds its outputs differently."""
  out = {}
  for k_, v_ in vars(est).items():
    if k_.endswith("_") and isinstance(v_, np.ndarray) and v_.ndim >= 1:
      out[k_] = (bool(v_.flags.c_contiguous), bool(v_.flags.f_contiguous),
                 tuple(int(np.sign(s_)) for s_ in v_.strides))
  return out


def fresh_restart(est, probes):
  """Process restart: pickle to disk, load in a *fresh interpreter* with
  another hash seed and a virgin global RNG, run the probes there, pickle
  again and load the survivor back."""
  d = tempfile.mkdtemp(prefix="mlsim-restart-")
  try:
    fin, fout = os.path.join(d, "in.pkl"), os.path.join(d, "out.pkl")
    with open(fin, "wb") as f:
      pickle.dump(dict(est=est, probes=probes), f, protocol=4)
    env = dict(os.environ)
    env["PYTHONHASHSEED"] = "977"
    p = subprocess.run([sys.executable, "-m", "mlsim.fresh", fin, fout],
                       cwd=VERIF, env=env, capture_output=True, text=True,
                       timeout=120)
    if p.returncode != 0:
      return None, None, "fresh interpreter failed: " + (p.stderr or "")[-300:]
    with open(fout, "rb") as f:
      out = pickle.load(f)
    po = ProbeOuts(out["outs"])
    po.values = out.get("vals")
    return out["est"], po, None
  finally:
    for fn in os.listdir(d):
      try:
        os.remove(os.path.join(d, fn))
      except OSError:
        pass
    try:
      os.rmdir(d)
    except OSError:
      pass
