"""Child side of a fresh-interpreter restart (see machine.fresh_restart)."""
import pickle
import sys

from . import world  # noqa: F401  (path bootstrap, PointStore class)
from .machine import _run_probes


def main(fin, fout):
  world.EIGSH.install()
  with open(fin, "rb") as f:
    job = pickle.load(f)
  est = job["est"]
  outs = _run_probes(est, job["probes"])
  with open(fout, "wb") as f:
    pickle.dump(dict(est=est, outs=list(outs), vals=outs.values), f, protocol=4)


if __name__ == "__main__":
  main(sys.argv[1], sys.argv[2])
