"""Evaluate prop.fresh_eval(plan) in this (fresh) interpreter: plan JSON on stdin,
result JSON on stdout.  Used for cross-process reproducibility clauses."""
import json
import sys

from . import runner


def main():
  pid = sys.argv[1]
  plan = json.load(sys.stdin)
  from . import world
  world.EIGSH.install()
  mod = runner.prop_module(pid)
  print(json.dumps(mod.fresh_eval(plan)))


if __name__ == "__main__":
  main()
