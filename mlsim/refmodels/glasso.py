"""Independent solver for the sparse LogDet problem

    minimise  f(T) = tr(P T) - logdet T + lam * ||T||_1,off   over T > 0

(proximal gradient with off-diagonal soft-thresholding and Cholesky-guarded
backtracking).  It is only ever used to produce a *witness*: any positive
definite T with f(T) clearly below f(M) proves that M is not a minimiser, so an
unconverged reference can only make the oracle weaker, never wrong."""
import numpy as np


def is_pd(T):
  try:
    np.linalg.cholesky((T + T.T) / 2)
    return True
  except np.linalg.LinAlgError:
    return False


def objective(P, T, lam):
  T = (T + T.T) / 2
  try:
    L = np.linalg.cholesky(T)
  except np.linalg.LinAlgError:
    return np.inf
  logdet = 2.0 * np.log(np.diag(L)).sum()
  off = np.abs(T).sum() - np.abs(np.diag(T)).sum()
  return float(np.sum(P * T) - logdet + lam * off)


def _soft_off(A, t):
  S = np.sign(A) * np.maximum(np.abs(A) - t, 0.0)
  S[np.diag_indices_from(S)] = np.diag(A)
  return S


def solve(P, lam, T0=None, iters=400, tol=1e-10):
  d = P.shape[0]
  P = (P + P.T) / 2
  if T0 is None or not is_pd(T0):
    dg = np.diag(P).copy()
    dg[dg <= 1e-12] = 1.0
    T = np.diag(1.0 / dg)
  else:
    T = (T0 + T0.T) / 2
  f = objective(P, T, lam)
  t = 1.0
  for it in range(iters):            # bounded: every loop in an oracle is capped
    G = P - np.linalg.inv(T)
    accepted = False
    for bt in range(60):
      Tn = _soft_off(T - t * G, t * lam)
      Tn = (Tn + Tn.T) / 2
      fn = objective(P, Tn, lam)
      if np.isfinite(fn) and fn <= f - 1e-14 * abs(f):
        accepted = True
        break
      t *= 0.5
    if not accepted:
      break
    df = f - fn
    T, f = Tn, fn
    t = min(t * 2.0, 1e6)
    if df <= tol * (1.0 + abs(f)):
      break
  return T, f, it + 1
