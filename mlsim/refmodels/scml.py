"""Reference model of SCML's documented stochastic dual-averaging scheme
(Shi, Bellet, Sha 2014; the estimator's docstring), fed with a given sequence
of mini-batches.  Transcribed from the description, no shared code."""
import numpy as np


def dist_diff(triplets, basis):
  """(n_triplets, n_basis): d_b(a, b) - d_b(a, c) for every rank-one basis b."""
  ab = (triplets[:, 0] - triplets[:, 1]).dot(basis.T) ** 2
  ac = (triplets[:, 0] - triplets[:, 2]).dot(basis.T) ** 2
  return ab - ac


def run(triplets, basis, batches, beta, gamma, output_iter, delta=0.001, tie=1e-9, batch_size=None):
  """Returns dict(w, M, ties, n_checkpoints, active)."""
  T = dist_diff(triplets, basis)
  n_t, n_b = T.shape
  max_iter, batch = batches.shape
  if batch_size is not None:
    batch = batch_size          # the documented divisor, whatever was drawn
  w = np.zeros(n_b)
  avg = np.zeros(n_b)
  ada = np.zeros(n_b)
  best_obj, best_w = np.inf, None
  ties = 0
  objs = []
  for it in range(max_iter):
    idx = batches[it]
    slack = 1.0 + T[idx].dot(w)
    ties += int(np.any(np.abs(slack) < tie * (1.0 + np.abs(T[idx]).dot(np.abs(w)))))
    viol = slack > 0
    g = T[idx[viol]].sum(axis=0) / batch
    avg = (it * avg + g) / (it + 1)
    ada = np.sqrt(ada ** 2 + g ** 2)
    w = -(it + 1) / (gamma * (delta + ada)) * np.minimum(avg + beta, 0.0)
    if (it + 1) % output_iter == 0:
      s = 1.0 + T.dot(w)
      ties += int(np.any(np.abs(s) < tie * (1.0 + np.abs(T).dot(np.abs(w)))))
      obj = beta * w.sum() + s[s > 0].sum() / n_t
      objs.append(obj)
      if np.isfinite(best_obj) and abs(obj - best_obj) <= tie * (1.0 + abs(obj)) \
          and not np.array_equal(w, best_w):
        ties += 1      # two different checkpoints tie for best
      if obj < best_obj:
        best_obj, best_w = obj, w.copy()
  if best_w is None:
    return dict(w=None, M=None, ties=ties, objs=objs)
  M = (basis.T * best_w).dot(basis)
  pos = best_w[best_w > 0]
  weak = bool(len(pos) and pos.min() < 1e-9 * pos.max())
  return dict(w=best_w, M=M, ties=ties, objs=objs, active=int((best_w > 0).sum()),
              weak_active=weak)
