"""Independent O(n^2) evaluations of the documented closed-form learners
(Covariance, RCA, LFDA).  Written from the definitions; shares no code with
metric_learn."""
import numpy as np
import scipy.linalg


def sym_pinv(C, rtol=1e-10):
  w, V = np.linalg.eigh((C + C.T) / 2)
  keep = w > rtol * max(w.max(), 0)
  return (V[:, keep] / w[keep]).dot(V[:, keep].T), int(keep.sum()), w


def covariance_ref(X):
  n = X.shape[0]
  Z = X - X.mean(axis=0)
  C = Z.T.dot(Z) / (n - 1)
  M, rank, w = sym_pinv(np.atleast_2d(C))
  # distance of the smallest kept / largest dropped eigenvalue from the cut
  return M, rank, w


def rca_ref(X, chunks, dim=None):
  """Returns dict(M, C, gap, A): within-chunk scatter C, M_ref, eigen-gap."""
  d = X.shape[1]
  mask = chunks >= 0
  N = int(mask.sum())
  C = np.zeros((d, d))
  for c in np.unique(chunks[mask]):
    Z = X[chunks == c]
    Z = Z - Z.mean(axis=0)
    C += Z.T.dot(Z)
  C /= N
  out = dict(C=C, N=N)
  out["rank"] = np.linalg.matrix_rank(C)
  if dim is None or dim >= d:
    out["M"] = np.linalg.inv(C)
    out["gap"] = 1.0
    return out
  Xc = X[mask]
  T = np.cov(Xc, rowvar=False)
  # maximise v'Tv / v'Cv : generalised eigenproblem T v = lam C v, largest lam
  lam, V = scipy.linalg.eigh(T, C)
  order = np.argsort(-lam)
  lam, V = lam[order], V[:, order]
  A = V[:, :dim]
  out["gap"] = float((lam[dim - 1] - lam[dim]) / max(abs(lam[0]), 1e-300))
  out["A"] = A
  out["M"] = A.dot(np.linalg.inv(A.T.dot(C).dot(A))).dot(A.T)
  return out


def lfda_scatter(X, y, k):
  """Pairwise-defined local within / between scatter (Sugiyama 2007, eq. 10-13)
  with local scaling sigma_i = distance to the k-th nearest same-class
  neighbour (k clipped to the class size - 1, class by class)."""
  n, d = X.shape
  Sw = np.zeros((d, d))
  Sb = np.zeros((d, d))
  classes = np.unique(y)
  A_full = np.zeros((n, n))
  same = (y[:, None] == y[None, :])
  nc_of = np.zeros(n)
  for c in classes:
    idx = np.where(y == c)[0]
    nc = len(idx)
    nc_of[idx] = nc
    Xc = X[idx]
    D2 = ((Xc[:, None, :] - Xc[None, :, :]) ** 2).sum(-1)
    kc = min(k, nc - 1)
    # k-th nearest neighbour of each point, the point itself excluded
    sig = np.empty(nc)
    for i in range(nc):
      others = np.delete(D2[i], i)
      sig[i] = np.sqrt(np.sort(others)[kc - 1]) if kc >= 1 else 0.0
    ls = np.outer(sig, sig)
    with np.errstate(divide="ignore", invalid="ignore"):
      A = np.exp(-D2 / ls)
    A[ls == 0] = 0
    A_full[np.ix_(idx, idx)] = A
  Ww = np.where(same, A_full / nc_of[:, None], 0.0)
  Wb = np.where(same, A_full * (1.0 / n - 1.0 / nc_of[:, None]), 1.0 / n)
  for W, S in ((Ww, Sw), (Wb, Sb)):
    # S = 1/2 sum_ij W_ij (x_i - x_j)(x_i - x_j)^T = X^T (D - W) X for symmetric W
    Wsym = (W + W.T) / 2
    Dg = np.diag(Wsym.sum(axis=1))
    S += X.T.dot(Dg - Wsym).dot(X)
  return (Sb + Sb.T) / 2, (Sw + Sw.T) / 2


def lfda_ref(X, y, dim, k, embedding_type):
  d = X.shape[1]
  Sb, Sw = lfda_scatter(X, y, k)
  lam, V = scipy.linalg.eigh(Sb, Sw)      # V is Sw-orthonormal
  order = np.argsort(-lam)
  lam, V = lam[order], V[:, order]
  gap = 1.0
  if dim < d:
    gap = float((lam[dim - 1] - lam[dim]) / max(abs(lam[0]), 1e-300))
  Phi = V[:, :dim]
  if embedding_type == "plain":
    M = Phi.dot(Phi.T)
  elif embedding_type == "weighted":
    M = (Phi * lam[:dim]).dot(Phi.T)
  else:
    Q, _ = np.linalg.qr(Phi)
    M = Q.dot(Q.T)
  return dict(M=M, gap=gap, lam=lam, Sb=Sb, Sw=Sw, Phi=Phi)
