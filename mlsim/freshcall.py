"""Run module.function(arg) in this (fresh) interpreter: pickled (module, function, arg) on
stdin, pickled ('ok', value) / ('exc', (type name, message)) on stdout.  Used for reference
computations that must not share anything process-wide with the run under test - not even
the interpreter's string-hash salt or import order."""
import importlib
import pickle
import sys


def main():
  modname, funcname, arg = pickle.load(sys.stdin.buffer)
  try:
    out = ("ok", getattr(importlib.import_module(modname), funcname)(arg))
  except BaseException as e:
    out = ("exc", (type(e).__name__, str(e)[:500]))
  sys.stdout.buffer.write(pickle.dumps(out, protocol=4))
  sys.stdout.buffer.flush()


if __name__ == "__main__":
  main()
