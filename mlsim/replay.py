"""Replay a stored violation (exact reproduction) or recompute run digests.

  python -m mlsim.replay <replay.json>
     exit 1 + VIOLATION line iff the stored violation signature is reproduced
     (and says whether the run digest - the hash of the complete event log -
     matches the stored one, i.e. whether the replay is exact; with
     VERIF_REPLAY_STRICT=1 a digest mismatch is exit 2); exit 0 if the
     violation is gone.
  python -m mlsim.replay --digests <ID> <tier> i,j,k
     prints {"i": digest, ...} for the given run indices of $VERIF_SEED.
"""
import json
import os
import sys

from . import runner
from .core import run_seed


def main(argv):
  if argv and argv[0] == "--digests":
    pid, tier, idx = argv[1].upper(), argv[2], argv[3]
    vseed = int(os.environ.get("VERIF_SEED", "0") or 0)
    mod = runner.prop_module(pid)
    out = {}
    for i in [int(x) for x in idx.split(",") if x]:
      plan = mod.gen_plan(run_seed(vseed, pid, i), tier)
      out[str(i)] = runner.execute(pid, plan)["digest"]
    print(json.dumps(out))
    return 0
  path = argv[0]
  with open(path) as f:
    rep = json.load(f)
  pid = rep["property"]
  r = runner.execute(pid, rep["plan"], keep_events=True)
  v = r.get("violation")
  if r.get("harness_error"):
    print("HARNESS-ERROR: %s" % r["harness_error"])
    return 2
  if not v:
    print("replay: no violation reproduced (signature was %s)" % rep["signature"])
    return 0
  s = runner.full_sig(pid, v)
  if s != rep["signature"]:
    print("replay: a different violation appears: %s (stored %s)" % (s, rep["signature"]))
    print("VIOLATION property=%s replay=%s" % (pid, path))
    return 1
  print("VIOLATION property=%s replay=%s" % (pid, path))
  print("  signature: %s" % s)
  print("  detail: %s" % str(v.get("detail"))[:600])
  if rep.get("digest") and r["digest"] != rep["digest"]:
    print("  note: run digest differs from the stored one (%s vs %s): the code "
          "under test changed or replay is not exact" % (r["digest"], rep["digest"]))
    return 2 if os.environ.get("VERIF_REPLAY_STRICT") else 1
  print("  exact replay: run digest %s matches the stored one" % r["digest"])
  return 1


if __name__ == "__main__":
  sys.exit(main(sys.argv[1:]))
