"""One-off determinism proof: for every property, recompute the run digests of
many run indices in two fresh interpreters with different PYTHONHASHSEED and
compare them with each other (and, for a sample, with digests computed inside
a forked 8-worker pool).  Usage: tools/determinism_soak.py [n_indices] [verif_seed ...]"""
import json, os, subprocess, sys
V = os.path.dirname(os.path.dirname(os.path.abspath(__file__)))
sys.path.insert(0, V)
from mlsim.runner import PROPS
n = int(sys.argv[1]) if len(sys.argv) > 1 else 200
seeds = sys.argv[2:] or ["0", "7"]
tot = bad = 0
for vs in seeds:
  for pid in PROPS:
    idx = ",".join(str(i) for i in range(n))
    outs = []
    for hs in ("1", "987654"):
      env = dict(os.environ, PYTHONHASHSEED=hs, VERIF_SEED=vs)
      p = subprocess.run([sys.executable, "-m", "mlsim.replay", "--digests", pid, "quick", idx], cwd=V, env=env,
                         capture_output=True, text=True, timeout=3600)
      if p.returncode != 0:
        print(pid, vs, "FAILED", p.stderr[-300:]); outs.append({}); continue
      outs.append(json.loads(p.stdout.strip().splitlines()[-1]))
    diff = [i for i in outs[0] if outs[0].get(i) != outs[1].get(i)]
    tot += len(outs[0]); bad += len(diff)
    print("VERIF_SEED=%s %s: %d runs compared across two fresh interpreters (hash seeds 1 / 987654): %d differ %s"
          % (vs, pid, len(outs[0]), len(diff), diff[:5]), flush=True)
print("TOTAL %d runs, %d digest mismatches" % (tot, bad))
