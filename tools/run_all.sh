#!/bin/bash
# Runs every registered check (default tier quick) in /verif against /repo, rewriting evidence/*.json,
# and validates MANIFEST.json and the evidence files against the schemas.
# usage: tools/run_all.sh [quick|thorough]
TIER=${1:-quick}
cd "$(dirname "$0")/.."
rc=0
for p in C03 C04 C05 C07 C08 C09 C13 C15 C16 C17 C18 C20; do
  out=$(timeout 3000 /venv/bin/python -m mlsim.check $p --tier $TIER 2>&1)
  code=$?
  echo "$p exit=$code $(echo "$out" | grep -E '^runs=')"
  echo "$out" | grep -E "^(VIOLATION|HARNESS|KNOWN)" | cut -c1-200
  [ $code -ne 0 ] && rc=1
done
python3-vt - <<'PY'
import json, jsonschema, glob
m = json.load(open('MANIFEST.json'))
jsonschema.validate(m, json.load(open('/root/.vp/MANIFEST.schema.json')))
es = json.load(open('/root/.vp/EVIDENCE.schema.json'))
for c in m['checks']:
    e = json.load(open(c['evidence_file']))
    jsonschema.validate(e, es)
    assert e['property_id'] == c['property_id']
print("MANIFEST and %d evidence files validate" % len(m['checks']))
PY
exit $rc
