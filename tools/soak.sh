#!/bin/bash
# False-alarm soak on the unchanged tree: every check at the given tier for a range of VERIF_SEED values.
# usage: tools/soak.sh <first_seed> <last_seed> [quick|thorough]   (prints one line per check run; exit 1 if any check did not exit 0)
cd "$(dirname "$0")/.."
TIER=${3:-quick}
rc=0
for s in $(seq $1 $2); do
  for p in C03 C04 C05 C07 C08 C09 C13 C15 C16 C17 C18 C20; do
    out=$(VERIF_SEED=$s timeout 3000 /venv/bin/python -m mlsim.check $p --tier $TIER --no-evidence 2>&1)
    code=$?
    echo "seed=$s $p exit=$code $(echo "$out" | grep -E '^runs=')"
    echo "$out" | grep -E "^(VIOLATION|HARNESS|  signature|  detail)" | cut -c1-400
    [ $code -ne 0 ] && rc=1
  done
done
exit $rc
