"""Confirm an independently produced seeded change and file it under /verif/seeded/<ID>-<n>/.

  tools/confirm_seed.py <ID> <n> [--src /tmp/seeded_out]

Confirms, in a scratch worktree of /repo (never in /repo itself):
  * the patch applies to the current /repo HEAD,
  * the 875 pinned baseline tests still pass with it,
  * demo.py exits non-zero with the change and 0 on the unchanged /repo.
Writes patch.diff, demo.py and meta.json (their meta + what was run here)."""
import json, os, shutil, subprocess, sys, tempfile

ID, n = sys.argv[1], sys.argv[2]
src = "/tmp/seeded_out"
if "--src" in sys.argv:
  src = sys.argv[sys.argv.index("--src") + 1]
S = os.path.join(src, ID, n)
V = os.path.dirname(os.path.dirname(os.path.abspath(__file__)))
dst = os.path.join(V, "seeded", "%s-%s" % (ID, n))
meta = json.load(open(os.path.join(S, "meta.json")))
wt = tempfile.mkdtemp(prefix="mlsim_seed_")
os.rmdir(wt)
subprocess.run(["git", "-C", "/repo", "worktree", "add", "-q", "--detach", wt, "HEAD"], check=True)
ran = []
ok = True
try:
  p = subprocess.run(["git", "-C", wt, "apply", os.path.join(S, "patch.diff")], capture_output=True, text=True)
  ran.append("git apply patch.diff on /repo HEAD %s: exit %d %s" % (
      subprocess.run(["git", "-C", "/repo", "rev-parse", "--short", "HEAD"], capture_output=True, text=True).stdout.strip(),
      p.returncode, p.stderr.strip()[:200]))
  if p.returncode != 0:
    ok = False
  else:
    env = dict(os.environ, OMP_NUM_THREADS="1", OPENBLAS_NUM_THREADS="1")
    d1 = subprocess.run(["/venv/bin/python", os.path.join(S, "demo.py")], cwd=wt, capture_output=True, text=True, timeout=600, env=env)
    d0 = subprocess.run(["/venv/bin/python", os.path.join(S, "demo.py")], cwd="/repo", capture_output=True, text=True, timeout=600, env=env)
    ran.append("demo.py with the change: exit %d (%s)" % (d1.returncode, (d1.stdout + d1.stderr).strip().splitlines()[-1:][0][:200] if (d1.stdout + d1.stderr).strip() else ""))
    ran.append("demo.py on unchanged /repo: exit %d" % d0.returncode)
    if d1.returncode == 0 or d0.returncode != 0:
      ok = False
    b = subprocess.run([os.path.join(V, "tools", "baseline_check.sh"), wt], capture_output=True, text=True, timeout=3600)
    ran.append("tools/baseline_check.sh <scratch with change>: exit %d: %s" % (b.returncode, b.stdout.strip().splitlines()[0] if b.stdout.strip() else ""))
    if b.returncode != 0:
      ok = False
finally:
  subprocess.run(["git", "-C", "/repo", "worktree", "remove", "--force", wt])
  shutil.rmtree(wt, ignore_errors=True)
print(ID, n, "CONFIRMED" if ok else "REJECTED")
for r in ran:
  print("   ", r)
if ok:
  os.makedirs(dst, exist_ok=True)
  shutil.copy(os.path.join(S, "patch.diff"), dst)
  shutil.copy(os.path.join(S, "demo.py"), dst)
  out = dict(property=ID, breaks=meta.get("what_it_breaks") or meta.get("title"), title=meta.get("title"),
             needs_to_manifest=meta.get("needs_to_manifest"), files=meta.get("files"),
             produced_by="independent sub-agent given only the property text and a scratch worktree",
             confirmed_here=ran, checks=meta.get("checks", {}))
  json.dump(out, open(os.path.join(dst, "meta.json"), "w"), indent=1)
sys.exit(0 if ok else 1)
