#!/bin/bash
# Runs the repository's pinned baseline (guard off) and compares with /root/.vp/BASELINE.json stable_pass.
# usage: tools/baseline_check.sh [repo_dir]
REPO=${1:-/repo}
OUT=$(mktemp /tmp/baseline.XXXXXX.xml)
( cd "$REPO" && env -u METRIC_LEARN_VERIF OMP_NUM_THREADS=2 OPENBLAS_NUM_THREADS=2 /venv/bin/python -m pytest -ra -q -p no:cacheprovider --timeout=900 --continue-on-collection-errors --junitxml="$OUT" >/dev/null 2>&1 )
/venv/bin/python - "$OUT" <<'PY'
import json, sys, xml.etree.ElementTree as ET
base = set(json.load(open('/root/.vp/BASELINE.json'))['stable_pass'])
root = ET.parse(sys.argv[1]).getroot()
passed = set(); allt = 0
for tc in root.iter('testcase'):
    allt += 1
    name = tc.get('classname') + '::' + tc.get('name')
    if not any(c.tag in ('failure', 'error', 'skipped') for c in tc):
        passed.add(name)
missing = sorted(base - passed)
print(f"tests={allt} passed={len(passed)} baseline={len(base)} baseline_now_failing={len(missing)}")
for m in missing[:40]:
    print("  FAIL", m)
sys.exit(1 if missing else 0)
PY
rc=$?
rm -f "$OUT"
exit $rc
