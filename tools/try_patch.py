"""Development tool: run checks against a scratch copy of /repo with a patch
applied (or with a commit reverted).  Never touches /repo itself.

  tools/try_patch.py --patch P.diff C03 C17 [--tier quick] [--runs N] [--seed S]
  tools/try_patch.py --revert <commit> C09
Prints one line per check: exit code, first VIOLATION signature lines."""
import argparse, os, shutil, subprocess, sys, tempfile

ap = argparse.ArgumentParser()
ap.add_argument("--patch")
ap.add_argument("--revert")
ap.add_argument("--tier", default="quick")
ap.add_argument("--runs", type=int)
ap.add_argument("--budget", type=float)
ap.add_argument("--seed", default="0")
ap.add_argument("--demo", help="also run this demo program in the scratch copy and in /repo")
ap.add_argument("--keep", action="store_true")
ap.add_argument("props", nargs="+")
a = ap.parse_args()
V = os.path.dirname(os.path.dirname(os.path.abspath(__file__)))
wt = tempfile.mkdtemp(prefix="mlsim_try_")
os.rmdir(wt)
subprocess.run(["git", "-C", "/repo", "worktree", "add", "-q", "--detach", wt, "HEAD"], check=True)
rc_all = 0
try:
  if a.patch:
    subprocess.run(["git", "-C", wt, "apply", os.path.abspath(a.patch)], check=True)
  if a.revert:
    subprocess.run(["git", "-C", wt, "revert", "-n", a.revert], check=True)
  if a.demo:
    for where in (wt, "/repo"):
      p = subprocess.run(["/venv/bin/python", os.path.abspath(a.demo)], cwd=where, capture_output=True, text=True, timeout=300)
      print("demo in %s: exit %d %s" % ("scratch(changed)" if where == wt else "/repo(unchanged)", p.returncode,
                                        (p.stdout + p.stderr).strip().splitlines()[-1:] ))
  for pid in a.props:
    env = dict(os.environ, VERIF_REPO=wt, VERIF_SEED=a.seed)
    cmd = ["/venv/bin/python", "-m", "mlsim.check", pid, "--tier", a.tier, "--no-evidence", "--no-selftest"]
    if a.runs:
      cmd += ["--runs", str(a.runs)]
    if a.budget:
      cmd += ["--budget", str(a.budget)]
    p = subprocess.run(cmd, cwd=V, env=env, capture_output=True, text=True, timeout=3000)
    lines = [l for l in p.stdout.splitlines() if l.startswith(("VIOLATION", "  signature", "  detail", "HARNESS", "KNOWN", "(further", "runs="))]
    print("%s exit=%d" % (pid, p.returncode))
    for l in lines[:14]:
      print("   " + l[:300])
    if p.returncode not in (0, 1):
      print(p.stdout[-600:], p.stderr[-600:])
finally:
  if not a.keep:
    subprocess.run(["git", "-C", "/repo", "worktree", "remove", "--force", wt])
    shutil.rmtree(wt, ignore_errors=True)
