"""Sensitivity to the repaired defects: for every 'fixed' entry of known_findings.json revert its commit in a scratch
worktree of /repo (never /repo itself) and run that property's quick check against it; the check must exit 1.
Writes seeded/REVERTS.md.   usage: tools/revert_matrix.py"""
import json, os, shutil, subprocess, sys, tempfile
V = os.path.dirname(os.path.dirname(os.path.abspath(__file__)))
known = [k for k in json.load(open(os.path.join(V, "known_findings.json"))) if k.get("status") == "fixed"]
rows = []
for k in known:
  wt = tempfile.mkdtemp(prefix="mlsim_rev_"); os.rmdir(wt)
  subprocess.run(["git", "-C", "/repo", "worktree", "add", "-q", "--detach", wt, "HEAD"], check=True)
  try:
    r = subprocess.run(["git", "-C", wt, "revert", "-n", k["commit"]], capture_output=True, text=True)
    if r.returncode != 0:
      rows.append((k, "revert does not apply cleanly", "")); print(k["property"], k["commit"], "revert conflict"); continue
    env = dict(os.environ, VERIF_REPO=wt, VERIF_SEED="0", VERIF_JOBS=os.environ.get("VERIF_JOBS", "8"))
    p = subprocess.run(["/venv/bin/python", "-m", "mlsim.check", k["property"], "--tier", "quick", "--no-evidence", "--no-selftest"],
                       cwd=V, env=env, capture_output=True, text=True, timeout=3000)
    sigs = [l.strip().replace("signature: ", "") for l in p.stdout.splitlines() if l.strip().startswith("signature:")]
    rows.append((k, "exit %d" % p.returncode, "; ".join(sigs[:3])))
    print(k["property"], k["commit"], p.returncode, sigs[:2], flush=True)
  finally:
    subprocess.run(["git", "-C", "/repo", "worktree", "remove", "--force", wt])
    shutil.rmtree(wt, ignore_errors=True)
shutil.rmtree(os.path.join(V, "replays"), ignore_errors=True)
lines = ["# Reverted repairs vs checks (quick tier, VERIF_SEED=0)", "",
         "Each repaired defect (`fix:` commit in /repo) is reverted in a scratch worktree and the property's check is run against it.", "",
         "| property | commit | what failed | check with the repair reverted | first signatures |", "|---|---|---|---|---|"]
for k, res, sg in rows:
  lines.append("| %s | %s | %s | %s | `%s` |" % (k["property"], k["commit"], k["what"].replace("|", "/")[:120], res, sg.replace("|", "/")[:200]))
open(os.path.join(V, "seeded", "REVERTS.md"), "w").write("\n".join(lines) + "\n")
