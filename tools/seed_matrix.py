"""Run the current checks against every confirmed seeded change under
/verif/seeded/<ID>-<n>/ (scratch worktree + VERIF_REPO, never /repo itself),
record exit codes and signatures in each meta.json and write seeded/MATRIX.md.

  tools/seed_matrix.py [ID-n ...]      (default: all)
Also folds in the 'before strengthening' results kept in seeded/v1_results.json."""
import json, os, re, shutil, subprocess, sys, tempfile
V = os.path.dirname(os.path.dirname(os.path.abspath(__file__)))
SD = os.path.join(V, "seeded")
EXTRA = {"C03": ["C17"], "C04": ["C17", "C05"], "C05": ["C17"], "C07": ["C08"], "C08": ["C07", "C17"], "C09": ["C03", "C17"],
         "C13": ["C20", "C17"], "C15": ["C03", "C17", "C18"], "C16": [], "C17": ["C03", "C16"], "C18": ["C17"], "C20": ["C17"]}
names = sys.argv[1:] or sorted(d for d in os.listdir(SD) if os.path.isdir(os.path.join(SD, d)) and "-" in d)
v1 = {}
for fn in ("v1_results.json", "v2_results.json", "v3_results.json", "v4_results.json", "v5_results.json", "v6_results.json", "v7_results.json", "v8_results.json", "v9_results.json"):     # results of the checks as they were when each seed arrived
  if os.path.exists(os.path.join(SD, fn)):
    v1.update(json.load(open(os.path.join(SD, fn))))
rows = []
for nm in names:
  d = os.path.join(SD, nm)
  meta = json.load(open(os.path.join(d, "meta.json")))
  pid = meta["property"]
  wt = tempfile.mkdtemp(prefix="mlsim_mx_"); os.rmdir(wt)
  subprocess.run(["git", "-C", "/repo", "worktree", "add", "-q", "--detach", wt, "HEAD"], check=True)
  res = {}
  try:
    a = subprocess.run(["git", "-C", wt, "apply", os.path.join(d, "patch.diff")], capture_output=True, text=True)
    if a.returncode != 0:
      res = {"apply": "failed: " + a.stderr[:200]}
    else:
      arrival = v1.get(nm) or {}
      for p in [pid] + EXTRA.get(pid, []):
        # neighbouring checks are run when the own check misses, or when they are on record as having caught this seed
        if p != pid and res.get(pid, {}).get("exit") == 1 and not arrival.get(p):
          continue
        env = dict(os.environ, VERIF_REPO=wt, VERIF_SEED="0", VERIF_JOBS=os.environ.get("VERIF_JOBS", "8"))
        r = subprocess.run(["/venv/bin/python", "-m", "mlsim.check", p, "--tier", "quick", "--no-evidence", "--no-selftest", "--no-shrink", "--first"],
                           cwd=V, env=env, capture_output=True, text=True, timeout=3000)
        sigs = [l.strip().replace("signature: ", "") for l in r.stdout.splitlines() if l.strip().startswith("signature:")]
        res[p] = dict(exit=r.returncode, signatures=sigs[:4])
  finally:
    subprocess.run(["git", "-C", "/repo", "worktree", "remove", "--force", wt])
    shutil.rmtree(wt, ignore_errors=True)
  meta["checks"] = res
  meta["checks_before_strengthening"] = v1.get(nm)
  json.dump(meta, open(os.path.join(d, "meta.json"), "w"), indent=1)
  rows.append((nm, meta, res))
  print(nm, {k: (v.get("exit") if isinstance(v, dict) else v) for k, v in res.items()}, flush=True)
# matrix over all seeds (not only the ones run now)
lines = ["# Seeded changes vs checks (quick tier, VERIF_SEED=0)", "",
         "exit 1 = the check reports a VIOLATION on the changed tree, 0 = it does not. 'on arrival' = the checks as they were",
         "when the seed arrived, i.e. before they were strengthened in response to it (seeds -1..-3: first round, -4/-5: second",
         "round whose files were lost with a sandbox restore, -6/-7: third round, -8/-9: fourth round, -10/-11: fifth round, -12/-13: sixth round, -14/-15: seventh round, -16/-17: eighth round, -18/-19: ninth round, -20: tenth round).", "",
         "| seed | what it breaks / needs | own check on arrival | own check now | other checks now |", "|---|---|---|---|---|"]
for nm in sorted(d for d in os.listdir(SD) if os.path.isdir(os.path.join(SD, d)) and "-" in d):
  meta = json.load(open(os.path.join(SD, nm, "meta.json")))
  pid = meta["property"]
  ch = meta.get("checks") or {}
  own = ch.get(pid, {})
  before = meta.get("checks_before_strengthening") or {}
  b = before.get(pid)
  others = ", ".join("%s:%s" % (k, v.get("exit")) for k, v in ch.items() if k != pid and isinstance(v, dict))
  ob = ", ".join("%s:%s" % (k, v) for k, v in before.items() if k != pid)
  lines.append("| %s | %s — needs: %s | %s%s | %s `%s` | %s |" % (
      nm, (meta.get("title") or "").replace("|", "/")[:110], (meta.get("needs_to_manifest") or "").replace("|", "/").replace("\n", " ")[:160],
      "caught" if b == 1 else ("missed" if b == 0 else "n/a"), (" (others: %s)" % ob) if ob else "",
      "caught" if own.get("exit") == 1 else "MISSED", (own.get("signatures") or [""])[0], others))
open(os.path.join(SD, "MATRIX.md"), "w").write("\n".join(lines) + "\n")
