"""Development helper: run one plan (by run index or replay file), optionally shrink.
  python tools/run_one.py C17 27 [--shrink] [--events]"""
import json, os, sys
sys.path.insert(0, os.path.dirname(os.path.dirname(os.path.abspath(__file__))))
from mlsim import runner
from mlsim.core import run_seed

pid = sys.argv[1].upper()
arg = sys.argv[2]
mod = runner.prop_module(pid)
if os.path.exists(arg):
  plan = json.load(open(arg))
  plan = plan.get("plan", plan)
else:
  vseed = int(os.environ.get("VERIF_SEED", "0"))
  plan = mod.gen_plan(run_seed(vseed, pid, int(arg)), os.environ.get("VERIF_TIER", "quick"))
r = runner.execute(pid, plan, keep_events=True)
print("violation:", r.get("violation"))
print("harness_error:", r.get("harness_error"))
print("inconclusive:", r.get("inconclusive"), "cov:", r.get("cov"))
if "--shrink" in sys.argv and r.get("violation"):
  plan, v, n = runner.shrink(pid, plan, r["violation"], budget_s=60)
  print("shrunk after", n, "executions:", v)
  print(json.dumps(plan, indent=1))
if "--events" in sys.argv:
  for e in r.get("events", []):
    print(json.dumps(e, default=repr)[:400])
if "--plan" in sys.argv:
  print(json.dumps(plan, indent=1))
