#!/bin/bash
# usage: tools/confirm_batch.sh C09/6 C09/7 ...   (confirm each seeded change, then run the own check + extras on it)
cd "$(dirname "$0")/.."
for s in "$@"; do
  id=${s%/*}; n=${s#*/}
  /venv/bin/python tools/confirm_seed.py $id $n > /tmp/confirm_${id}_${n}.log 2>&1
  if grep -q CONFIRMED /tmp/confirm_${id}_${n}.log; then
    VERIF_JOBS=8 /venv/bin/python tools/seed_matrix.py ${id}-${n} >> /tmp/confirm_${id}_${n}.log 2>&1
  fi
  echo "== $s: $(grep -E 'CONFIRMED|REJECTED' /tmp/confirm_${id}_${n}.log) :: $(tail -1 /tmp/confirm_${id}_${n}.log)"
done
