"""Development tool: run N runs of a property and print coverage counters matching a pattern.
  tools/cov.py C17 300 interrupt"""
import sys, os, re
sys.path.insert(0, os.path.dirname(os.path.dirname(os.path.abspath(__file__))))
from mlsim import runner
pid, n = sys.argv[1], int(sys.argv[2])
pat = sys.argv[3] if len(sys.argv) > 3 else "."
tier = sys.argv[4] if len(sys.argv) > 4 else "quick"
res, _, wall = runner.explore(pid, int(os.environ.get("VERIF_SEED", "0")), tier, n, 16, 600)
cov, shapes, nontriv, inconc, herr, viol = runner.aggregate(res)
for k in sorted(cov):
  if re.search(pat, k):
    print(k, cov[k])
print("runs", len(res), "viol", len(viol), "herr", len(herr), "inconc", dict(inconc), "wall %.1f" % wall)
for r in viol[:5]:
  print(runner.full_sig(pid, r["violation"]), str(r["violation"].get("detail"))[:300])
for r in herr[:3]:
  print(r.get("harness_error"))
