#!/bin/bash
# usage: tools/thorough_some.sh <seed> C17 C18 ...   (thorough tier of the listed checks, no evidence written)
cd "$(dirname "$0")/.."
S=$1; shift
rc=0
for p in "$@"; do
  out=$(VERIF_SEED=$S timeout 3000 /venv/bin/python -m mlsim.check $p --tier thorough --no-evidence 2>&1)
  code=$?
  echo "seed=$S $p exit=$code $(echo "$out" | grep -E '^runs=')"
  echo "$out" | grep -E "^(VIOLATION|HARNESS|  signature|  detail)" | cut -c1-500
  [ $code -ne 0 ] && rc=1
done
exit $rc
