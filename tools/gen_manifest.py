"""Writes /verif/MANIFEST.json from the table below (kept in one place so the
file is always schema-valid).  Run: /venv/bin/python tools/gen_manifest.py"""
import json, os, sys
ROOT = os.path.dirname(os.path.dirname(os.path.abspath(__file__)))

PY = "/venv/bin/python"
CLAIMED = {
 "C03": ("§6 C03, §12.1", "H,R,F", "seeded history simulation (incl. fits interrupted at a drawn line event and then repeated, forced eigensolver failures) + postcondition oracle after every successful fit"),
 "C04": ("§6 C04, §12.1", "H", "seeded history simulation against a threshold-history reference model (last writer per handle, across queries, failed writers, restarts and other handles) and an independent evaluation of the learned distance"),
 "C05": ("§6 C05", "F,H", "seeded simulation with fault injection at the preprocessor seam (callable point store answering as ndarray, mixed-dtype table, nested list or tuple; k-th-call faults; caller-side edits); twin-estimator reference"),
 "C07": ("§6 C07, §12.1", "R,H", "seeded simulation of the PRNG draw stream (integer seeds, recorded and scripted draw programs), ambient state and call histories on one live Constraints object; soundness predicates over returned constraints"),
 "C08": ("§6 C08, §12.1", "R,H", "seeded simulation of PRNG streams/ambient state/earlier fits; differential reference (base learner on oracle-formed constraints from the Constraints output) and unlabeled-points-moved repetition"),
 "C09": ("§6 C09, §12.1", "R,F", "seeded simulation of the eigensolver seams (ARPACK start vector, forced non-convergence, forced failure of the dense solver: all three links of LFDA's fallback chain; forced failure of Covariance's pseudo-inverse) against O(n^2) reference formulas"),
 "C13": ("§6 C13, §12.1", "F,R,H", "seeded simulation with fault injection at the graphical-lasso seam and earlier fits of the same object; lower-objective witness from an independent solver"),
 "C15": ("§6 C15", "R", "seeded simulation with recorded and scripted PRNG draw programs and fault injection at the local-LDA seam against a reference dual-averaging model"),
 "C16": ("§6 C16", "H,F", "seeded history simulation; per-instance brute force over all cut-offs; empty seam trace before rejection"),
 "C17": ("§6 C17, §12.1", "H,R,F", "seeded history simulation (API histories, pickle restarts, ambient perturbation, caller-side buffer / store / label edits, shared stores and arrays, crash points: fits interrupted at drawn line events, crash-point sweeps and a per-batch ENUMERATION of the first / middle / last line event of every function of every estimator's fit) against a fresh-object replay reference model computed in a pristine process (forked before any history; one reference in twenty in a brand-new interpreter with another hash salt)"),
 "C18": ("§6 C18, §12.1", "H", "exhaustive (estimator x parameter) sweep + seeded set_params/clone/pickle-restart/failed-fit/interrupted-fit histories"),
 "C20": ("§6 C20", "R,F", "seeded simulation of seeds/ambient state/process restarts ('random' recomputed in a fresh interpreter with another hash salt) and Cholesky/eigen fallback paths; numpy reference linear algebra"),
}
NA = {
 "C01": "pure function of (learned matrix, query points): no schedule, PRNG stream, clock, history or fault can change it; a simulator would only sample inputs (DESIGN §7)",
 "C02": "agreement of the views at one instant is a pure function of components_ and the query; the history-flavoured part (handed-out views survive refits) is covered under C17 (DESIGN §7)",
 "C06": "rejection of malformed input is a function of the argument and the fitted shape alone; enumerating malformations is input generation, not simulation (DESIGN §7)",
 "C10": "objective/gradient correctness at every L is a pure function of (X, y, L); L-BFGS and LMNN's loop are deterministic, so nothing a simulator decides can change it (DESIGN §7)",
 "C11": "the KKT certificate is a pure function of (pairs, prior, gamma, bounds, max_iter); max_iter is a hyper-parameter, not a crash point (DESIGN §7)",
 "C12": "descent/stationarity/prior-return are determined by the input alone; the caller-weights mutation part of its known defect is covered under C17 (DESIGN §7)",
 "C14": "PSD-ness, budget feasibility and 'last feasible improving iterate' are determined by the input; no seam, draw or history can change them (DESIGN §7)",
 "C19": "metamorphic relations between two deterministic fits on transformed inputs; translations/rotations/permutations are inputs, not schedules or faults (DESIGN §7)",
}
PARTIAL = {
 "C09": " PARTIAL CLAIM: only the LFDA clause has a simulator dimension (ARPACK start vector, forced non-convergence, fallback chain); Covariance and RCA are sampled fault-free differential checks against the same kind of reference.",
 "C16": " PARTIAL CLAIM: the ordering clause (rejection before any fitting work) and the history clause (calibrate / fit with calibration_params on live handles) carry the simulator dimension; optimality is decided per instance by brute force over all distinct cut-offs and is sampled, not searched.",
 "C20": " PARTIAL CLAIM: seed-reproducibility of 'random' priors/inits under perturbed ambient state and the Cholesky/eigen fallback paths carry the simulator dimension; the remaining clauses are sampled matrix identities. Two open known findings (PSD tolerance vs eigen-solver noise: a singular prior accepted by the strict learners, a singular PSD init rejected by MMC).",
 "C03": " Two open known findings share one root cause with C20's (PSD conversion tolerance vs eigen-solver noise); they are keyed by an observer-computed discriminator.",
 "C15": " One open known finding (SCML's PSD-by-construction matrix rejected within rounding), keyed by an observer-computed discriminator.",
}
LEVEL_NOTE = ("Sampling, not proof. Trusted base: the harness (mlsim), its reference models, numpy/scipy/"
              "scikit-learn as installed, single-threaded BLAS. Real metric_learn code from /repo's working tree "
              "runs in-process; stubs are only the seams listed in the evidence file (real_vs_stub).")

def built(pid):
  return os.path.exists(os.path.join(ROOT, "mlsim", "props", pid.lower() + ".py"))

checks = []
na = [dict(property_id=k, reason=v) for k, v in sorted(NA.items())]
for pid, (ref, dims, tech) in sorted(CLAIMED.items()):
  if not built(pid):
    na.append(dict(property_id=pid, reason="planned claim (DESIGN %s) whose check is not built yet in this commit; not claimed until it is" % ref))
    continue
  checks.append(dict(
    property_id=pid,
    quick_cmd="timeout 900 %s -m mlsim.check %s --tier quick" % (PY, pid),
    thorough_cmd="timeout 3000 %s -m mlsim.check %s --tier thorough" % (PY, pid),
    evidence_file="evidence/%s.json" % pid,
    replay_cmd_template=PY + " -m mlsim.replay {path}",
    engine="mlsim",
    level_claimed=dict(category="exploration",
                       text=("Seeded search over simulated executions (dimensions %s: H=API-call histories incl. pickle restart, "
                             "R=PRNG draw streams/ambient process state, F=faults at dependency seams and crash points) with an executable reference "
                             "model as oracle; every failure is shrunk and stored as an exactly replayable plan. A clean batch is "
                             "evidence, not proof." % dims),
                       design_ref=ref),
    level_note=LEVEL_NOTE + PARTIAL.get(pid, ""),
    technique="deterministic simulation with fault injection: " + tech))
man = dict(
  version=1,
  setup_cmd="%s -m compileall -q mlsim && %s -c \"import sys; sys.path.insert(0,'.'); import mlsim.world\"" % (PY, PY),
  hooks=dict(guard="METRIC_LEARN_VERIF",
             enable="no source hooks are needed: all seams are public parameters or module-level names rebound from outside; the guard name is reserved and unused",
             baseline_off_cmd="cd /repo && env -u METRIC_LEARN_VERIF /venv/bin/python -m pytest -ra -q -p no:cacheprovider --timeout=900 --continue-on-collection-errors",
             source_commits=[], add_only=True),
  engines=[dict(name="mlsim", path="mlsim", serves_properties=[c["property_id"] for c in checks],
                kind_free_text="in-process deterministic simulator: seeded plan generator, history machine over live estimators, "
                               "seams for PRNG/preprocessor/ARPACK and dense eigensolver/graphical-lasso/clock/pickle-restart/"
                               "crash points (sys.settrace line events inside metric_learn), process isolation (one forked process per run, "
                               "reference fits in a pristine process), reference-model oracles, "
                               "shrinker and exact replay")],
  checks=checks,
  not_applicable=sorted(na, key=lambda x: x["property_id"]),
  notes=("Family: deterministic simulation with fault injection. metric-learn has no threads, network, disk or timers; the simulated "
         "dimensions are API-call histories (incl. pickle restarts and caller-buffer reuse), PRNG draw streams/ambient state, failures at "
         "dependency seams and interruption of a running fit at an arbitrary line (crash point). "
         "Properties that are pure functions of their input are listed as not applicable (DESIGN §3, §7). "
         "Exit codes: 0 held, 1 VIOLATION, 2 HARNESS-ERROR. Env: VERIF_SEED, VERIF_TIER, VERIF_REPO (default /repo), VERIF_JOBS."))
with open(os.path.join(ROOT, "MANIFEST.json"), "w") as f:
  json.dump(man, f, indent=1)
print("checks:", [c["property_id"] for c in checks], "na:", [x["property_id"] for x in na])
